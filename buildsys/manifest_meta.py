# Prose for MANIFEST.json (kept next to the registry so both change together).
HOOK_COMMITS = ['0e3f45b', '5d5e67b', 'cc90e8e', '79f97e5']
NOTES = ("All checks are property-based tests / fuzzers: rapidcheck harnesses (props/*.cpp) and libFuzzer targets (the same sources compiled with -DVF_FUZZ: fz_*) "
         "with explicit oracles, run by ./verif, which rebuilds libpixman from /repo's working tree (variants plain, asan, tsan) "
         "on every invocation. Genuine defects found are listed in known_findings.json (fixed by 'fix:' commits in /repo, or "
         "known). VERIF_SEED seeds every process (splitmix of seed and process index).")
ENGINES = [
    dict(name="rapidcheck", path="props/", serves_properties=[], kind_free_text="C++ property-based testing harnesses with shrinking; one process per core, seeds derived from VERIF_SEED"),
    dict(name="libFuzzer", path="props/", serves_properties=[], kind_free_text="coverage-guided fuzz targets sharing the oracles of the rapidcheck harnesses (clang -fsanitize=fuzzer,address)"),
]
NOT_APPLICABLE = {}
META = {}
META["C05"] = dict(
    technique="property-based testing (rapidcheck): generated operation histories vs. an independent point-set model, with shrinking",
    design_ref="§4 C05",
    text=("Generated search: tens of thousands (quick) to millions (thorough) of random region-operation histories in the 16- and "
          "32-bit API, every result compared with an independent interval-arithmetic model of set algebra; also run under ASan. "
          "No exhaustiveness claim: a green run means no counterexample among the generated non-trivial cases."),
    note="Trusted: harness/ref_region.hpp (model), rapidcheck, the compilers. Allocation failure is out of scope here (C15).")
META["C06"] = dict(
    technique="property-based testing (rapidcheck): stateful histories, canonical-form predicate + uniqueness vs. model canonical builder, equal() vs. model equality",
    design_ref="§4 C06",
    text=("Generated search over operation histories (3-40 steps, pool of 4 regions, incl. overflow-clipping translations); after "
          "every step the canonical-form predicate from the statement, rectangle-list identity with the model's canonical builder, "
          "tight extents, storage conventions, selfcheck() and equal() for all pairs are checked."),
    note="Trusted: harness/ref_region.hpp. Found and fixed: S4, S5, S14 (known_findings.json).")
META["C07"] = dict(
    technique="property-based testing (rapidcheck): edge-directed queries and limit-aimed translations vs. point-set model; a1 bitmap import vs. independent bit reader",
    design_ref="§4 C07",
    text=("Generated search: queries placed on the region's own edges +-1 and at coordinate limits, translations computed so that "
          "chosen box edges land within +-3 of the 16/32-bit limits, a1 bitmaps with word-boundary widths; results compared with "
          "the model."),
    note="Trusted: harness/ref_region.hpp, little-endian a1 layout. Found and fixed: S6 (known_findings.json).")
META["C11"] = dict(
    technique="property-based testing (rapidcheck): boundary-biased matrices/vectors vs. exact 128-bit integer reference",
    design_ref="§4 C11",
    text=("Generated search (millions of calls) over every matrix entry point with magnitude extremes, w at 0 and at +-2^k, results "
          "at the representability limits; each result compared with exact rational arithmetic in __int128 / long double."),
    note="Trusted: the __int128 reference in props/matrix.cpp. Found and fixed: S7, S8 (known_findings.json).")
META["C18"] = dict(
    technique="property-based testing (rapidcheck) under AddressSanitizer: all kernel pairs x boundary-biased scales x phase bits vs. well-formedness oracle",
    design_ref="§4 C18",
    text=("Generated search over (kernel pair, scale, subsample bits) per axis with the library built under ASan; the returned block "
          "is checked for announced length, header, exact phase sums, acceptance by set_filter and constancy of a filtered constant image."),
    note="Trusted: ASan for out-of-block writes; vf_malloc shim for the allocation size. Found and fixed: S12.")
META["C10"] = dict(
    technique="property-based testing (rapidcheck) with per-format exhaustive value enumeration vs. an independent codec; differential (accessor vs direct, scanline vs pixel reader)",
    design_ref="§4 C10",
    text=("For every format: all 2^bpp pixel values (<= 16 bpp) or structured + random samples are pushed through the library and "
          "compared with an independent codec; random sub-rectangles check store locality bit by bit; accessor images are compared "
          "with direct images and every callback address is range-checked."),
    note="Trusted: harness/img.hpp codec. ASan variant re-runs the random part.")
META["C01"] = dict(
    technique="property-based testing (rapidcheck): generated one-row composites vs. independent exact-integer and long-double reference models, run under three implementation chains",
    design_ref="§4 C01",
    text=("Hundreds of thousands (quick) to millions (thorough) of generated scenes x up to 67 pixels each, every affected pixel "
          "compared with a reference model chosen by pipeline class; the default chain, the chain without SIMD and the pure general "
          "chain are each checked against the model."),
    note="Trusted: harness/ref_combine.hpp and harness/img.hpp. Found and fixed: S1.")
META["C12"] = dict(
    technique="property-based testing (rapidcheck): exact rational sample-count model + metamorphic laws (split, offset, decomposition, composite route)",
    design_ref="§4 C12",
    text=("Generated trapezoids/triangles on a1/a4/a8 images compared pixel by pixel with an exact sample-count model and with the "
          "metamorphic laws named in the statement; boundary-biased coordinates (pixel edges, sample positions +-2 units)."),
    note="Trusted: the rational model in props/traps.cpp. Findings: S16 fixed; S15 and S17 known (see known_findings.json).")
META["C02"] = dict(
    technique="differential property-based testing (rapidcheck): one generated request, N worker processes with different PIXMAN_DISABLE, bit-exact comparison with the general-only chain",
    design_ref="§4 C02",
    text=("Generated scenes and fill/blt requests are rendered by one worker process per implementation subset (8 quick, all 32 in "
          "one job and thorough) and compared bit for bit; the trace hook measures how many cases really reached different code."),
    note="Trusted: the harness's digest/masking rule; PIXMAN_VERIF trace hook (add-only). Found and fixed: S9.")
META["C03"] = dict(
    technique="property-based testing (rapidcheck): generated clipped requests vs. an independent region model; bit-level diff of all storage outside the model region",
    design_ref="§4 C03",
    text=("Generated requests with multi-box clips on destination/source/mask, alpha maps and sub-byte formats; the region the "
          "statement defines is computed by the independent model and every bit outside it must be unchanged; "
          "pixman_compute_composite_region must return exactly that region."),
    note="Trusted: harness/ref_region.hpp. ASan variant re-runs part of the cases.")
META["C19"] = dict(
    technique="property-based testing (rapidcheck): fill/blt vs. independently computed memory image across worker processes per implementation chain; fill_boxes vs. per-box compositing (differential) + locality",
    design_ref="§4 C19",
    text=("Generated fill/blt requests executed under every implementation subset and compared with an independently computed "
          "memory image; generated fill_boxes/fill_rectangles requests compared with per-box compositing and checked for locality, "
          "also under ASan."),
    note="Trusted: harness raw pixel writer; composite32 as reference for fill_boxes. Found and fixed: S3.")
META["C04"] = dict(
    engine="rapidcheck + libFuzzer",
    technique="property-based testing and coverage-guided fuzzing (rapidcheck + libFuzzer) under AddressSanitizer and PROT_NONE guard pages, per implementation chain",
    design_ref="§4 C04",
    text=("Generated and fuzzed scenes on exactly sized, fenced storage with edge-hugging and extreme transforms, executed under "
          "every implementation subset of the quick set; memory errors are made visible by ASan and guard pages, and nothing "
          "outside the composite region may change."),
    note="Trusted: ASan, mprotect guard pages. Cannot see an over-read that stays inside the same allocation.")
META["C08"] = dict(
    technique="property-based testing (rapidcheck): generated transformed fetches vs. an independent bit-exact reference of rounding.txt, under three implementation chains",
    design_ref="§4 C08",
    text=("Generated (transform, filter, kernel, repeat, source) combinations with sample positions steered onto pixel boundaries; "
          "every fetched pixel compared bit for bit with an independent reference sampler."),
    note="Trusted: the reference sampler in props/sampling.cpp. Found and fixed: S2 (and S9 via C02).")
META["C09"] = dict(
    technique="metamorphic property-based testing (rapidcheck): equivalent presentations of the same opaque content must render identically",
    design_ref="§4 C09",
    text=("Generated base scenes rendered under pairs of equivalent presentations (alpha-less format, alpha 255, 565, solid, 1x1 "
          "repeating; opaque masks; repeating opaque destinations) and compared bit for bit, under three implementation chains."),
    note="Trusted: the equivalence rules listed in the assumptions. Found and fixed: S19.")
META["C13"] = dict(
    technique="property-based testing (rapidcheck): generated gradients vs. long-double geometric reference with interval tolerance; safety part under ASan with a hang watchdog",
    design_ref="§4 C13",
    text=("Generated stop lists/geometries/repeats/transforms; every pixel compared with the range of a long-double reference over "
          "the admissible parameter interval; degenerate and hostile inputs run under ASan with a watchdog."),
    note="Trusted: the reference in props/gradients.cpp; tolerance rules listed in the assumptions.")
META["C17"] = dict(
    technique="stateful / model-based property-based testing (rapidcheck) of the glyph cache with a watchdog, on a small-table hook build and the real constants; differential test of glyph drawing vs. per-glyph compositing",
    design_ref="§4 C17",
    text=("Generated cache histories checked step by step against a map + recency-list model (small hook table under ASan, real "
          "table, and the real capacity limit); generated glyph runs drawn through both entry points and compared with the "
          "compositions the statement names."),
    note="Trusted: the model in props/glyphs.cpp; hook 3 (table size). Found and fixed: S11.")
META["C14"] = dict(
    technique="stateful property-based testing (rapidcheck): long-lived images under generated setter/draw histories vs. freshly built replicas of the current state",
    design_ref="§4 C14",
    text=("Generated histories of every image setter, pixel writes and composites; at each composite the long-lived images must "
          "render exactly like fresh images given the same final properties and pixels."),
    note="Trusted: the harness's model of 'current properties' (one field per setter).")
META["C20"] = dict(
    technique="stateful / model-based property-based testing (rapidcheck) under ASan+LSan with an allocation counter: reference-count model of images and alpha-map edges",
    design_ref="§4 C20",
    text=("Generated create/ref/unref/set_* histories over a pool of images against a reference-count model; unref return values, "
          "destroy callbacks, alpha-map lifetimes and the library's live allocation count are checked, under ASan/LSan."),
    note="Trusted: the model in props/lifetime.cpp; ASan/LSan; the allocation shims. Found and fixed: S21.")
META["C15"] = dict(
    technique="fault injection driven by property-based testing (rapidcheck): generated API scenarios x exhaustive enumeration of the failing allocation (single and persistent), under ASan with a live-allocation counter",
    design_ref="§4 C15",
    text=("For each generated scenario every allocation position is failed in turn (single and persistent): exhaustive over "
          "fault positions for the generated scenarios, sampled over scenarios. Crashes, leaks, non-propagated failures and "
          "wrong-but-reported-success results are violations."),
    note="Trusted: allocation shims (buildsys/vf_alloc.c), ASan. Fault positions are exhaustive per scenario; scenarios are a sample.")
META["C16"] = dict(
    technique="property-based testing (rapidcheck) of generated multi-threaded workloads: differential oracle against single-threaded execution on the plain build + ThreadSanitizer as race oracle on an instrumented build",
    design_ref="§4 C16",
    text=("Generated workloads of 2-16 barrier-started threads drawing on private destinations from shared read-only and private "
          "sources; per-thread digests must equal single-threaded execution, and the ThreadSanitizer build must report no race. "
          "Inputs are generated and shrunk; interleavings are sampled by repetition, not enumerated."),
    note="Trusted: ThreadSanitizer (clang 14) and pthread barriers. A race on a path no generated workload executes is missed.")
