# Registry of harness binaries and of the checks (property -> jobs).
# cases/procs are per tier.  See DESIGN.md §1.

def T(q, t):
    return {"quick": q, "thorough": t}


HARNESSES = [
    dict(name="regions", src="props/regions.cpp", variant="plain"),
    dict(name="regions_asan", src="props/regions.cpp", variant="asan"),
    dict(name="matrix", src="props/matrix.cpp", variant="plain"),
    dict(name="filter_asan", src="props/filter.cpp", variant="asan"),
    dict(name="formats", src="props/formats.cpp", variant="plain"),
    dict(name="combine", src="props/combine.cpp", variant="plain"),
    dict(name="traps", src="props/traps.cpp", variant="plain"),
    dict(name="impls", src="props/impls.cpp", variant="plain"),
    dict(name="touch", src="props/touch.cpp", variant="plain"),
    dict(name="touch_asan", src="props/touch.cpp", variant="asan"),
    dict(name="oob", src="props/oob.cpp", variant="plain"),
    dict(name="sampling", src="props/sampling.cpp", variant="plain"),
    dict(name="opaque", src="props/opaque.cpp", variant="plain"),
    dict(name="gradients", src="props/gradients.cpp", variant="plain"),
    dict(name="lifetime_asan", src="props/lifetime.cpp", variant="asan"),
    dict(name="oom_asan", src="props/oom.cpp", variant="asan"),
    dict(name="history", src="props/history.cpp", variant="plain"),
    dict(name="history_asan", src="props/history.cpp", variant="asan"),
    dict(name="glyphs", src="props/glyphs.cpp", variant="plain"),
    dict(name="glyphs_asan", src="props/glyphs.cpp", variant="asan"),
    dict(name="glyphs_small", src="props/glyphs.cpp", variant="asan_smallglyph",
         cflags=["-DPIXMAN_VERIF_GLYPH_HIGH_WATER=8", "-DPIXMAN_VERIF_GLYPH_LOW_WATER=4"]),
    dict(name="gradients_asan", src="props/gradients.cpp", variant="asan"),
    dict(name="oob_asan", src="props/oob.cpp", variant="asan"),
    dict(name="fz_oob", src="props/oob.cpp", variant="asan", kind="fuzz", cflags=["-DVF_FUZZ", '-DVF_FUZZ_PROP="oob"']),
    dict(name="traps_asan", src="props/traps.cpp", variant="asan"),
    dict(name="formats_asan", src="props/formats.cpp", variant="asan"),
    dict(name="fz_regions", src="props/regions.cpp", variant="asan", kind="fuzz", cflags=["-DVF_FUZZ", '-DVF_FUZZ_PROP="canon"']),
    dict(name="fz_matrix", src="props/matrix.cpp", variant="asan", kind="fuzz", cflags=["-DVF_FUZZ", '-DVF_FUZZ_PROP="matrix"']),
    dict(name="fz_traps", src="props/traps.cpp", variant="asan", kind="fuzz", cflags=["-DVF_FUZZ", '-DVF_FUZZ_PROP="traps"']),
    dict(name="fz_glyphs", src="props/glyphs.cpp", variant="asan_smallglyph", kind="fuzz",
         cflags=["-DVF_FUZZ", '-DVF_FUZZ_PROP="cache"', "-DPIXMAN_VERIF_GLYPH_HIGH_WATER=8", "-DPIXMAN_VERIF_GLYPH_LOW_WATER=4"]),
    dict(name="fz_filter", src="props/filter.cpp", variant="asan", kind="fuzz", cflags=["-DVF_FUZZ", '-DVF_FUZZ_PROP="filter"']),
    dict(name="lifetime_small", src="props/lifetime.cpp", variant="asan_smallglyph",
         cflags=["-DPIXMAN_VERIF_GLYPH_HIGH_WATER=8", "-DPIXMAN_VERIF_GLYPH_LOW_WATER=4"]),
    dict(name="threads", src="props/threads.cpp", variant="plain"),
    dict(name="threads_tsan", src="props/threads.cpp", variant="tsan"),
]

CHECKS = {}

CHECKS["C05"] = dict(
    level="exploration",
    rule=("rapidcheck histories of 1-4 region operations (union, intersect, subtract, inverse, union_rect, intersect_rect, copy, "
          "reset, clear, init_rects, init_rect, init_with_extents, 16<->32 conversion) over a pool of 4 regions built by init_rects "
          "from 0-24 arbitrary (overlapping/degenerate/inverted) boxes, 16- and 32-bit API, coordinates on a dense lattice, near "
          "INT16/INT32 limits and mixed; every pool region is compared after every step with an independent interval-arithmetic "
          "model (point-set equality; operands must be unchanged; return must be TRUE). Non-trivial = some step produced a result "
          "with >= 2 rectangles or used an aliased result/operand; distinct = distinct serialised histories."
          " Also run coverage-guided: the libFuzzer target fz_regions decodes the fuzzer's bytes through the same generator into the same oracle (ASan build)."),
    jobs=[
        dict(harness="regions", prop="ops", cases=T(18000, 150000), procs=T(6, 16)),
        dict(harness="regions_asan", prop="ops", cases=T(4500, 40000), procs=T(2, 4)),
          dict(harness="fz_regions", prop="canon", kind="fuzz", cases=T(60000, 1500000), procs=T(2, 3), max_len=400)],
    floor=T(30000, 400000), nt_floor=T(3000, 20000),
    assumptions=["model in harness/ref_region.hpp is the specification of set algebra on integer points",
                 "operations whose arguments overflow the coordinate type (x+width beyond the limit) are outside the stated domain and not generated",
                 "allocation never fails (covered by C15)"],
)

CHECKS["C06"] = dict(
    level="exploration",
    rule=("rapidcheck histories of 3-40 operations (C05's set plus translate incl. overflow-clipping translations) over a pool of 4 "
          "regions, ending in a generated algebraic identity so that equal point sets are reached by different routes; after every "
          "step every pool region must satisfy the canonical-form predicate written from the statement, have exactly the rectangle "
          "list of the model's canonical builder, tight extents, no list for a single rectangle, selfcheck() TRUE, and equal(X,Y) "
          "must equal model equality for all 16 pairs. Non-trivial = >= 3 steps with multi-rectangle results and a pair of equal "
          "non-empty point sets in different pool slots."
          " Also run coverage-guided: the libFuzzer target fz_regions decodes the fuzzer's bytes through the same generator into the same oracle (ASan build)."),
    jobs=[
        dict(harness="regions", prop="canon", cases=T(7500, 80000), procs=T(6, 16)),
        dict(harness="regions_asan", prop="canon", cases=T(1800, 20000), procs=T(2, 4)),
          # regions imported from a1 bitmaps must be canonical too (C07's bitmap property checks the rectangle list against the
          # canonical builder, selfcheck and "single rectangle without a list")
          dict(harness="regions", prop="bitmap", cases=T(6000, 60000), procs=T(1, 2), tag="c06_bitmap"),
          dict(harness="fz_regions", prop="canon", kind="fuzz", cases=T(60000, 1500000), procs=T(2, 3), max_len=400)],
    floor=T(12000, 200000), nt_floor=T(750, 5000),
    assumptions=["canonical-form predicate and canonical builder in harness/ref_region.hpp are written from the property statement"],
)

CHECKS["C07"] = dict(
    level="exploration",
    rule=("(a) histories of 0-6 operations incl. translations aimed at the 16/32-bit limits (dx = LIMIT - edge +- 0..3), then 12 "
          "queries per case: contains_point / contains_rectangle at coordinates taken from the region's own edges +-1 and the "
          "coordinate limits, compared with model membership / subset / disjointness; returned box must be the member rectangle "
          "holding the point; not_empty, n_rects, extents compared with the model. (b) init_from_image on a1 bitmaps (width 1-200 "
          "with mass at word boundaries, random/all-ones/zero/run-structured rows, garbage in the padding bits) compared with the "
          "set bits read by an independent a1 decoder, incl. canonical form. Non-trivial = a rectangle query touching >= 2 "
          "rectangles or a translation that clips some but not all boxes (a); >= 2 runs in a row and differing rows (b)."),
    jobs=[
        dict(harness="regions", prop="query", cases=T(40000, 120000), procs=T(5, 12)),
        dict(harness="regions", prop="bitmap", cases=T(30000, 100000), procs=T(2, 4)),
        dict(harness="regions_asan", prop="query", cases=T(10000, 30000), procs=T(1, 2)),
    ],
    floor=T(100000, 400000), nt_floor=T(10000, 20000),
    assumptions=["empty query rectangles are not generated: the API does not define IN/OUT for them",
                 "little-endian a1 bit order (bit i of a 32-bit word is pixel i)"],
)

CHECKS["C11"] = dict(
    level="exploration",
    rule=("rapidcheck cases over point_3d, point, multiply (all aliasing patterns), scale/rotate/translate (forward, reverse, both), "
          "bounds, invert, predicates and fixed<->double conversion; matrix/vector entries from {0, +-1 unit, +-2^k, +-2^k+-1, "
          "INT32_MIN/MAX, moderate, uniform}; w steered to exact powers of two incl. 0 and +-65536.0; well-conditioned and exactly "
          "singular matrices for invert; doubles on/off the 16.16 grid and within 2 units of +-32768 for conversion. Oracle: exact "
          "__int128 products/quotients (nearest for |w|<65536, within 1 unit otherwise; 1.5 units for the three separately rounded "
          "products of multiply), TRUE/FALSE must match representability, no abort. Non-trivial = not the affine w==1 shortcut / "
          "overflowing / aliased etc. as labelled; distinct = distinct serialised cases."
          " Also run coverage-guided: the libFuzzer target fz_matrix decodes the fuzzer's bytes through the same generator into the same oracle (ASan build)."),
    jobs=[dict(harness="matrix", prop="matrix", cases=T(750000, 4000000), procs=T(8, 16)),
          dict(harness="fz_matrix", prop="matrix", kind="fuzz", cases=T(180000, 3000000), procs=T(2, 3), max_len=400)],
    floor=T(3000000, 30000000), nt_floor=T(300000, 1000000),
    assumptions=["'correctly rounded' for multiply/scale/rotate/translate is read as: each 16.16 product rounded to nearest (DESIGN.md C11 Care)",
                 "1/sx may be the floor or the ceiling of the exact quotient",
                 "rotate with c or s == INT32_MIN is outside the domain (-s not representable)",
                 "invert is asserted only for exactly singular matrices with entries < 2^17 units and for well-conditioned matrices (entries <= 256.0, |det| >= 2^-8)"],
)

CHECKS["C18"] = dict(
    level="exploration",
    rule=("rapidcheck cases: all 8x8 (reconstruct, sample) kernel pairs per axis, scales log-uniform over 2^-16..2^6 plus exact "
          "powers of two, 1+-ulp, simple fractions and negative values, subsample bits 0..8 per axis (capped so that a table has "
          "<= 16384 entries); ASan build. Oracle: non-NULL, allocation >= announced length, integral header equal to the request, "
          "n_values == 4 + w*2^bx + h*2^by, every phase sums to exactly 65536 (64-bit sum), set_filter accepts, and for kernels up "
          "to 200 taps a constant a8r8g8b8 image stays constant under the filter. Non-trivial = width >= 2 or >= 1 phase bit on an axis."
          " Also run coverage-guided: the libFuzzer target fz_filter decodes the fuzzer's bytes through the same generator into the same oracle (ASan build)."),
    jobs=[dict(harness="filter_asan", prop="filter", cases=T(8000, 60000), procs=T(8, 16)),
          dict(harness="fz_filter", prop="filter", kind="fuzz", cases=T(80000, 1500000), procs=T(2, 3), max_len=300)],
    floor=T(40000, 500000), nt_floor=T(10000, 100000),
    assumptions=["the constant-image consequence is asserted only for kernels of <= 200 taps: the fetchers round every x*y coefficient product, so for huge kernels a drift is arithmetic of the fetcher, not of the table"],
)

CHECKS["C10"] = dict(
    level="exploration",
    rule=('(exh) per format (all 47 of pixman.h, chosen by rapidcheck together with accessor flags and destination offset): every'
          ' pixel value for <= 16 bpp (2^bpp values), per-channel ramps/walking bits + 20000 random values for 24/32 bpp: OP_SRC '
          'into a8r8g8b8 must equal the reference decode (bit replication, absent alpha = 1, absent colour = 0, palette lookup '
          'for indexed), back into the format must equal truncation and be the identity on the defined bits; wide formats (10 '
          'bpc, sRGB) via rgba_float within 2^-20 (sRGB 2e-5) and identity on the way back. (codec) random images of every format'
          ' (width 1-110, sub-rectangle at any bit offset, padded/negative strides, fenced buffers): scanline vs single-pixel '
          'reader agreement (identity vs +0.25px NEAREST), store locality on every bit outside the addressed pixels incl. sub-'
          'byte neighbours and row padding, accessor image == direct image on defined bits with every callback address inside the'
          ' storage.; callbacks are pass-through, read-only on the source (no write callback), or translating (the storage holds '
          'every byte XORed with a key only the callbacks know, so an access that bypasses them sees garbage; not for YUV '
          'sources, whose fetchers address memory directly by design); accessors are not installed on > 32 bpp images (documented'
          ' restriction). Value law for every narrow source format incl. indexed and YUV: what the float pipeline reads '
          '(rgba_float destination) is within one 8-bit step of what the 8-bit pipeline reads. Callbacks may be installed after '
          'the images were first drawn with. Direct-fill store (exh): twelve colours stored by fill_rectangles(SRC) must give the pixel that compositing the same solid gives, for every destination format. Float narrowing (exh): an rgba_float ramp from -1e30 to 1e30 stored into every packed format by SRC and, for formats with alpha, by MULTIPLY onto a cleared destination (unclamped combiner): 0 below 0, the channel maximum above 1, monotone in between. The codec property also runs under the MMX and the general-only chain. Non-trivial ='
          ' unaligned start/end, indexed/YUV source, or accessor callbacks observed.'),
    jobs=[
        dict(harness="formats", prop="exh", cases=T(1200, 1500), procs=T(4, 8)),
        dict(harness="formats", prop="codec", cases=T(96000, 250000), procs=T(6, 12)),
        dict(harness="formats_asan", prop="codec", cases=T(24000, 60000), procs=T(2, 4)),
          # the readers and writers of the other implementation levels (MMX iterators; the general path alone)
          dict(harness="formats", prop="codec", cases=T(64000, 120000), procs=T(1, 2), env={"PIXMAN_DISABLE": "sse2 ssse3"}, tag="codec_mmx"),
          dict(harness="formats", prop="codec", cases=T(64000, 120000), procs=T(1, 2), env={"PIXMAN_DISABLE": "fast mmx sse2 ssse3"}, tag="codec_general"),
    ],
    floor=T(320000, 800000), nt_floor=T(80000, 100000),
    assumptions=["reference codec in harness/img.hpp written from the PIXMAN_FORMAT bit fields",
                 "YUV formats have no exact rule in the statement: only reader agreement / accessor equivalence are asserted for them",
                 "float and YUV formats address memory directly even with accessors installed; this is observed and labelled, not asserted against (the statement speaks about identical behaviour)",
                 "little-endian host"],
)

CHECKS["C01"] = dict(
    level="exploration",
    rule=('rapidcheck one-row scenes (width 1-67, random x offsets, padded/negative strides, fenced buffers): all 63 operator '
          'codes (40% mass on CLEAR..ADD), source bits or solid, mask none/unified/component-alpha (bits or solid), formats from '
          'every packed RGB(A)/A format incl. 10 bpc, sRGB and float with 45% mass on the formats that have specialised paths, '
          'pixel channels biased to {0,1,max/2,max/2+1,max-1,max}, premultiplied-valid and arbitrary values, repeating '
          'destinations (opaque-destination column of the operator table). Solid sources/masks carry genuinely 16-bit channels in'
          ' 30% of cases (alpha 0xff00..0xfffe: opaque at 8 bits only); the 8-bit classes see the high bytes, the float class the'
          " 16-bit values. Rows may lie at y = 1 or 2 of a taller image; 6% of cases are 'pixbuf' requests (an a8r8g8b8/a8b8g8r8 "
          'mask image created on the storage of the x8r8g8b8/x8b8g8r8 source, read at the same or at a different position). Run '
          'under the default chain, the MMX chain, the C-only chain and the general-only chain. Oracle by class: exact (Porter-'
          'Duff + ADD, all formats <= 8 bpc): bit-exact vs. integer model (round-to-nearest products, saturating sums, '
          'replication/truncation); float pipeline: within 1 + 1/64 destination step of the long-double Render/PDF equations '
          '(1e-4 for float destinations), premultiplied inputs only; PDF blend modes in the 8-bit pipeline: within 2 steps of the'
          ' equation on exact-rule-masked inputs. HSL with a component-alpha mask is only checked to leave the destination (no '
          'equation in the statement). Non-trivial = operator reads both operands or a mask is present, and some source alpha '
          'strictly between 0 and 1 or a mask.'),
    jobs=[
        dict(harness="combine", prop="combine", cases=T(300000, 1500000), procs=T(6, 12)),
        dict(harness="combine", prop="combine", cases=T(30000, 200000), procs=T(1, 2), env={"PIXMAN_DISABLE": "sse2 ssse3 mmx"}, tag="combine_nosimd"),
          dict(harness="combine", prop="combine", cases=T(30000, 200000), procs=T(1, 2), env={"PIXMAN_DISABLE": "sse2 ssse3"}, tag="combine_mmx"),
        dict(harness="combine", prop="combine", cases=T(30000, 200000), procs=T(1, 2), env={"PIXMAN_DISABLE": "fast sse2 ssse3 mmx"}, tag="combine_general"),
    ],
    floor=T(400000, 5000000), nt_floor=T(100000, 1000000),
    assumptions=["reference models in harness/ref_combine.hpp are written from the Render protocol and PDF 1.7 blend-mode equations",
                 "real-valued classes are asserted on premultiplied-valid inputs only (the statement says 'applied to the premultiplied inputs'); arbitrary values are asserted in the exact class",
                 "tolerance 2 steps for the 8-bit blend modes (MULTIPLY rounds three products separately: 1.5 steps worst case on the unchanged code)"],
)

CHECKS["C12"] = dict(
    level="exploration",
    rule=('rapidcheck cases: a1/a4/a8 images 1-40 x 1-24 (incl. widths 1,31,32,33,64, padded strides, zero/random/full prefill), '
          'trapezoids whose top/bottom and line points are biased onto pixel boundaries, sample rows/columns +-2 units and 1/16 '
          "steps, lines spanning or not spanning the trapezoid's height, shapes partly/wholly outside, x/y offsets -40..40. 6% of"
          ' trapezoids have lines given by two points 8000-30000 px above the image and a bottom far below it; 10% of composite-law cases (3% elsewhere) use a degenerate first shape (zero/negative height, an edge line through two points of equal y). Laws: (model) '
          'every pixel equals the saturating count of grid samples with X_l <= x < X_r, top <= y < bottom computed in exact '
          'rational arithmetic (pixels where an edge passes within 2 units of a sample point are skipped and counted); horizontal'
          ' split, edge split with the middle line given by the same two points, whole-pixel offset commutation, triangle = '
          'independent two-trapezoid decomposition and permutation invariance, add_traps = rasterize of the equivalent trapezoid (the span preceded in the same call by up to two spans that cover no sample row),'
          ' composite_trapezoids(op in CLEAR..SATURATE, solid/bits source, 6 destination formats) = rasterise into a zeroed mask '
          '+ composite32. Non-trivial = some sample covered and a non-vertical edge (law dependent). Also run coverage-guided: '
          "the libFuzzer target fz_traps decodes the fuzzer's bytes through the same generator into the same oracle (ASan build)."),
    jobs=[
        dict(harness="traps", prop="traps", cases=T(60000, 800000), procs=T(8, 14)),
        dict(harness="traps_asan", prop="traps", cases=T(7500, 100000), procs=T(2, 2)),
          dict(harness="fz_traps", prop="traps", kind="fuzz", cases=T(60000, 1500000), procs=T(2, 3), max_len=400)],
    floor=T(300000, 5000000), nt_floor=T(75000, 500000),
    assumptions=["sample grid positions follow Render's N_X_FRAC x N_Y_FRAC layout (first = (1 - (N-1)*floor(1/N))/2, spacing floor(1/N))",
                 "tie handling (edge exactly through a sample point) is not pinned by the statement: such pixels are excluded from the model check and law mismatches confined to them are the known finding S17",
                 "requests whose edge x at an image row leaves +-2^30 units are skipped (not representable for the edge walker)"],
)

CHECKS["C02"] = dict(
    level="exploration",
    rule=("rapidcheck scenes (70% 'plain' profile shaped like the fast-path tables: common formats, OVER/SRC/ADD/IN..., "
          'a8/solid/component-alpha masks, none/scaled/rotated/affine transforms with nearest/bilinear/separable filters, '
          'repeats, widths 1-300 with mass at SIMD boundaries, offsets, dest clips, fenced buffers; 30% full profile with every '
          'image property; one plain request in six is shaped like the scaled nearest/bilinear fast-path families (SRC/OVER/ADD, '
          '8888/565, positive scale, no mask / a8 mask with runs of 0x00 and 0xff / solid mask); 40% of scaled sources are '
          "'cover' requests with scales of either sign and magnitude up to 4 (rows visited backwards, strides > 1); 8% are "
          '20000-32000 px wide sources sampled with a large step from left of the image (sums beyond 2^31 units); 5% of plain requests are pixbuf pairs (an x888 source and an a888 mask that are two images on one buffer, offsets 0-2); 4% are shaped like the whole-image quarter-turn routines (SRC, no mask, same 8888/565/a8 format), quarter turns with translations of +-1/2 pixel +- 1 unit; 30% of masked plain requests with a transformed bits source give the mask the placement of the source and are preceded, on the same thread, by their twin with a plain mask (per-thread cache of resolved combinations)) and '
          'pixman_fill/pixman_blt requests (bpp 1..128 incl. unsupported, x/width 0-130, padded strides, 0-12 byte start '
          'offsets), each rendered by 8 (quick) / 32 (thorough) worker processes started with different PIXMAN_DISABLE values; '
          'destination digests (undefined bits masked) and the alpha-map digests must equal those of the general-only chain; '
          "source/mask must be unmodified; each worker's chain length must match the subset it was asked for; fill/blt must have "
          'the exact rectangle effect or return FALSE having changed nothing. Non-trivial (scenes) = at least two workers '
          'resolved the request to different (level, composite function, iterator set) triples, measured through the PIXMAN_VERIF'
          ' trace hook; (fill/blt) some chain returned TRUE on an unaligned start or width.'),
    jobs=[
        dict(harness="impls", prop="scene", cases=T(15000, 150000), procs=T(4, 6)),
        dict(harness="impls", prop="fillblt", cases=T(15000, 200000), procs=T(2, 2)),
        dict(harness="impls", prop="scene", cases=T(4000, 60000), procs=T(2, 3), tag="impls_scene_all32",
             env={"VF_CHAINS": ";".join([w + " ".join(x for x, b in zip(("fast", "mmx", "sse2", "ssse3"), bits) if b)
                                         for w in ("", "wholeops ") for bits in __import__("itertools").product((0, 1), repeat=4)][1:]) + ";"}),
    ],
    floor=T(15000, 300000), nt_floor=T(4000, 80000),
    assumptions=["indexed formats use consistent palettes (store(fetch(i)) == i), as every real caller's do; with an inconsistent palette even the DST operator is observable",
                 "undefined bits (padding bits of affected pixels; image alpha bits / map colour bits under a destination alpha map) are masked",
                 "each worker is a fresh process: the implementation chain is fixed at library load",
                 "dithered destinations are not generated: dithering is not in the statement's quantifier and is applied by the general floating-point path only (special-case paths never dither, by design)"],
)

CHECKS["C03"] = dict(
    level="exploration",
    rule=("rapidcheck scenes on small destinations (1-40 x 1-12) of any destination format incl. a1/a4/c4/g1/24 bpp with padded and "
          "negative strides and fenced buffers: request rectangle inside/straddling/outside, zero and huge sizes, 16-bit extremes; "
          "dest clip of 1-6 boxes; dest alpha map with arbitrary origin; source and mask clips in all four (has_client_clip, "
          "source_clipping) combinations placed to overlap in destination space; a quarter of the bits sources/masks with an alpha map (origin x != y) that carries its own clip in all four flag combinations; operators biased to those that change every pixel; "
          "entry points composite32, the 16-bit composite, pixman_compute_composite_region, fill_boxes/fill_rectangles (C19's oracle), composite_glyphs(_no_mask) (C17's oracle) and the trapezoid entry points (C12's harness on fenced canvases); clip regions include set-but-empty ones. Oracle: R = request ∩ bounds ∩ dest "
          "clip ∩ alpha-map bounds ∩ enabled source/mask clips and enabled clips of their alpha maps (translated), computed by the independent region model; every bit "
          "of the destination storage and of the alpha map outside R is unchanged (sub-byte neighbours, padding); "
          "compute_composite_region returns TRUE iff R non-empty and exactly R in canonical form; SRC with an opaque solid sets "
          "every pixel of R; sources unmodified. Non-trivial = R non-empty, different from the request rectangle and with an edge "
          "strictly inside the image."),
    jobs=[
        dict(harness="touch", prop="composite", cases=T(37500, 400000), procs=T(6, 12)),
        dict(harness="touch_asan", prop="composite", cases=T(12000, 80000), procs=T(2, 4)),
        # trapezoid entry points: the C12 harness checks every pixel against the sample-count model (so nothing outside the
        # shape changes), row padding, and runs on exactly sized buffers fenced by PROT_NONE pages
        dict(harness="traps", prop="traps", cases=T(22500, 200000), procs=T(3, 4), tag="c03_traps", tolerate=["S15", "S17"]),
        # fill_boxes / fill_rectangles (every bit outside boxes ∩ bounds ∩ clip unchanged; the direct-fill shortcut) and the
        # glyph entry points (bit-identical to per-glyph compositing on clipped destinations): the oracles of C19 / C17
        dict(harness="touch", prop="fill", cases=T(12000, 100000), procs=T(2, 3), tag="c03_fill"),
        dict(harness="glyphs", prop="draw", cases=T(4500, 50000), procs=T(2, 3), tag="c03_glyphs", tolerate=["S20"]),
    ],
    floor=T(150000, 2000000), nt_floor=T(45000, 500000),
    assumptions=["clips are not put on alpha-map images (the statement does not enumerate them)",
                 "the 'every pixel of R is drawn' direction is asserted only for geometry within +-16000 (requests whose source coordinates leave the 16-bit range are dropped by design, C04)"],
)

CHECKS["C19"] = dict(
    level="exploration",
    rule=("(fill/blt) rapidcheck pixman_fill / pixman_blt requests: bpp in {1,4,8,16,24,32,64,128,2,12} incl. unequal blt depths, "
          "x/width 0-130, heights 0-6, padded strides, start offsets 0-12 bytes, clean and dirty fillers; run by one worker per "
          "PIXMAN_DISABLE value: TRUE => memory equals the independently computed image (exactly the rectangle's bits set/copied), "
          "FALSE => nothing changed, all TRUE results identical. (fill_boxes/fill_rectangles) all destination formats, every "
          "operator, 16-bit colours biased to {0,ffff,8000,ff00,ff80,...}, 0-8 boxes overlapping/outside/degenerate, dest clip: "
          "result equals compositing a solid over each box (defined bits), every bit outside boxes ∩ bounds ∩ clip unchanged, "
          "returns TRUE; ASan build included. Non-trivial = unaligned start/width with some chain returning TRUE; shortcut "
          "operator with a box cut by the image edge or the clip."),
    jobs=[
        dict(harness="impls", prop="fillblt", cases=T(80000, 300000), procs=T(3, 6)),
        dict(harness="touch", prop="fill", cases=T(80000, 300000), procs=T(3, 6)),
        dict(harness="touch_asan", prop="fill", cases=T(24000, 100000), procs=T(2, 4)),
    ],
    floor=T(400000, 1500000), nt_floor=T(80000, 300000),
    assumptions=["the reference for fill_boxes is pixman_image_composite32 with a solid image (its own correctness is C01/C03)"],
)

_CHAINS8 = ["", "ssse3", "ssse3 sse2", "ssse3 sse2 mmx", "fast mmx sse2 ssse3", "fast", "wholeops", "wholeops fast mmx sse2 ssse3"]
CHECKS["C04"] = dict(
    level="exploration",
    rule=("scenes on exactly sized storage (no stride padding 70%, buffers flush against PROT_NONE pages at either end 70%, malloc "
          "under ASan otherwise): source/mask transforms solved so that the first or last sample of the request lands at "
          "{0, 1/2, 1, w-1, w-1/2, w, w+1/2} pixels +- {0,1,2 units, 1/4, 1/2-1 unit} of a source edge with scales incl. 1/4..6 "
          "and negatives; extreme matrices (entries 0, +-1, +-2^k, INT32 limits, projective rows); all filters incl. convolution "
          "up to 9x9 and separable tables with phase bits 0-4; all repeats; 1xN / Nx1 images and rows of 32767/32768/40000/65536/"
          "70000 pixels; request offsets at +-32768, +-10^5, +-2^30 and near INT32 limits; sizes 0 and 65535; gradients, alpha "
          "maps, accessors (addresses range-checked), clips. Executed by rapidcheck under the plain build once per implementation "
          "chain (8 PIXMAN_DISABLE values), by rapidcheck under ASan, and by libFuzzer+ASan decoding bytes through the same "
          "generator. Violation = sanitizer report, SIGSEGV on a guard page, destination bits outside the C03 region or source "
          "storage modified, accessor address outside the storage. Trapezoid entry points: the C12 harness on fenced canvases "
          "(plain and ASan). Non-trivial = non-empty composite region and a transformed bits source or mask."),
    jobs=[dict(harness="oob", prop="oob", cases=T(15600, 250000), procs=T(1, 1), env={"PIXMAN_DISABLE": ch}, tag="oob_chain%d" % i) for i, ch in enumerate(_CHAINS8)] + [
        dict(harness="oob_asan", prop="oob", cases=T(13000, 120000), procs=T(3, 4)),
        dict(harness="fz_oob", prop="oob", kind="fuzz", cases=T(52000, 2000000), procs=T(3, 4), max_len=600),
        dict(harness="traps", prop="traps", cases=T(13000, 150000), procs=T(1, 2), tag="c04_traps", tolerate=["S15", "S17"]),
        dict(harness="traps_asan", prop="traps", cases=T(5200, 60000), procs=T(1, 2), tag="c04_traps_asan", tolerate=["S15", "S17"]),
        # pixman_image_fill_boxes / fill_rectangles and the pixman_fill shortcut behind them (C19's oracle, on fenced and
        # ASan-guarded destinations)
        dict(harness="touch", prop="fill", cases=T(10400, 100000), procs=T(2, 3), tag="c04_fill"),
        dict(harness="touch_asan", prop="fill", cases=T(3900, 40000), procs=T(1, 2), tag="c04_fill_asan"),
    ],
    floor=T(130000, 2000000), nt_floor=T(39000, 500000),
    assumptions=["images are described truthfully (stride >= row bytes, storage valid for height rows, YV12 planes laid out as the library documents)",
                 "request geometry whose sums (x + width, dest - src) overflow int32 is outside the stated domain and skipped",
                 "ASan/guard pages only see accesses that leave the allocation: an over-read that stays inside row padding of the same buffer is visible only when the buffer has no padding (70% of cases)"],
)

CHECKS["C08"] = dict(
    level="exploration",
    rule=('rapidcheck scenes: source 1-9 x 1-9 of a8r8g8b8/x8r8g8b8/r5g6b5/a8 (70%) or another narrow format incl. indexed and '
          'sub-byte, OP_SRC into a8r8g8b8 (1-12 x 1-4, optionally split by a clip so that scanlines start at different x), '
          'transform from {integer/fractional translate, scale incl. negative, rot90 family, general affine, projective} (8% negated entry by entry: w < 0 at every pixel), with '
          'fractional parts biased to {0, 1/2, 1 unit, 1-1 unit, 1/4, 3/4} and first samples steered onto pixel boundaries +-2 '
          'units; filters NEAREST/FAST, BILINEAR/GOOD/BEST, CONVOLUTION (1-5 x 1-5, negative taps), SEPARABLE_CONVOLUTION (1-5 '
          'taps, 0-4 phase bits per axis); all four repeats. 6% of sources are 20000-32000 px wide and sampled with a large step '
          'from left of the image; 15% of requests go through an untransformed a8 mask with runs of 0x00/0xff under SRC or OVER '
          '(expected value = exact 8-bit combination of the reference sample, the mask and the old destination). Oracle: '
          'independent implementation of rounding.txt (exact matrix product rounded half-up, projective quotient rounded toward '
          'zero or -inf, floor(x-e), 7-bit bilinear weights with truncating sum, k = floor(x-(w-1)/2-e) kernel alignment, phase '
          'rounding, repeat by definition), bit-exact. Run under the default chain, without SIMD, and general-only. Non-trivial ='
          ' not an integer translate, >= 2 distinct source values sampled, and (repeat with samples outside, or a sample within 2'
          ' units of a pixel boundary/centre, or projective).'),
    jobs=[
        dict(harness="sampling", prop="sampling", cases=T(80000, 700000), procs=T(6, 10)),
        dict(harness="sampling", prop="sampling", cases=T(40000, 300000), procs=T(1, 2), env={"PIXMAN_DISABLE": "sse2 ssse3 mmx"}, tag="sampling_nosimd"),
        dict(harness="sampling", prop="sampling", cases=T(40000, 300000), procs=T(1, 2), env={"PIXMAN_DISABLE": "fast sse2 ssse3 mmx"}, tag="sampling_general"),
        dict(harness="sampling", prop="sampling", cases=T(20000, 150000), procs=T(1, 2), env={"PIXMAN_DISABLE": "wholeops"}, tag="sampling_wholeops"),
    ],
    floor=T(400000, 4000000), nt_floor=T(100000, 800000),
    assumptions=["domain: the request rectangle expanded by one pixel maps, corner by corner, to within +-30000 source pixels with w of one sign (the library drops requests beyond that, which is C04's 'dropped or clamped')",
                 "kernels have absolute coefficient sums well below 128.0 (32-bit accumulators of 8-bit pixel x 16.16 coefficient)",
                 "wide (10 bpc, sRGB, float) sources are not covered here (C09/C10 cover them differentially)"],
)

CHECKS["C09"] = dict(
    level="exploration",
    rule=('rapidcheck metamorphic pairs: one base scene (all 63 operators with 65% mass on CLEAR..SATURATE; source with any '
          'transform kind, NEAREST/BILINEAR/CONVOLUTION/SEPARABLE filters with non-negative kernels, all repeats, request partly '
          'outside a REPEAT_NONE source; widths with mass at SIMD boundaries) rendered under two presentations of the same fully '
          'opaque content for one role: source in {a8r8g8b8 alpha 255, x8r8g8b8, x8b8g8r8, r5g6b5 (565-representable content), '
          'solid, 1x1 repeating a8r8g8b8 / x8r8g8b8 (uniform content)}, mask in {none, a8=ff, x8r8g8b8, solid white, 1x1 a8=ff '
          'repeating, a8r8g8b8=ffffffff component alpha}, destination in {a8r8g8b8 alpha 255, x8r8g8b8, x8r8g8b8 + repeat (the '
          'only way a destination is flagged opaque), r5g6b5, r5g6b5 + repeat}; the other roles use a random fixed presentation. '
          "30% of masks are scaled nearest/bilinear 'cover' masks (every sample inside); 30% of convolution kernels sum to "
          '0.4-0.99 instead of 1 when no solid presentation is involved (an alpha-less image read through such a kernel is not '
          "opaque); a further job runs C19's fill_boxes oracle (OVER with 16-bit alphas 0xff00..0xfffe). Oracle: destinations "
          'identical on RGB (and alpha when both have it), bit for bit. Non-trivial = the pair differs in opacity flagging and '
          "the operator's row of the reduction table has differing columns, or a mask is elided."),
    jobs=[
        dict(harness="opaque", prop="opaque", cases=T(150000, 500000), procs=T(6, 10)),
        dict(harness="opaque", prop="opaque", cases=T(75000, 250000), procs=T(1, 2), env={"PIXMAN_DISABLE": "fast sse2 ssse3 mmx"}, tag="opaque_general"),
        dict(harness="opaque", prop="opaque", cases=T(75000, 250000), procs=T(1, 2), env={"PIXMAN_DISABLE": "sse2 ssse3"}, tag="opaque_mmx"),
        dict(harness="opaque", prop="opaque", cases=T(75000, 250000), procs=T(1, 2), env={"PIXMAN_DISABLE": "mmx sse2 ssse3"}, tag="opaque_cfast"),
        # "treated as opaque only if every sample has alpha 1": solids with 16-bit alpha 0xff00..0xfffe vs the same colour as a
        # 1x1 repeating rgba_float image, as source or mask, on 10 bpc / sRGB / float destinations
        dict(harness="opaque", prop="nearopaque", cases=T(150000, 400000), procs=T(2, 4)),
        # the same simplification inside pixman_image_fill_boxes (OVER with an opaque colour becomes SRC / a direct fill):
        # C19's oracle "fill_boxes == compositing a solid over each box", which includes 16-bit alphas 0xff00..0xfffe
        dict(harness="touch", prop="fill", cases=T(40000, 100000), procs=T(2, 3), tag="c09_fill"),
    ],
    floor=T(750000, 3000000), nt_floor=T(200000, 600000),
    assumptions=["r5g6b5 vs 8888 source presentations are compared in the 8-bit pipeline only (in floating point r5g6b5 is widened as v/31, the 8888 copy holds replicated 8-bit values)",
                 "solid vs uniform-image presentations are not compared when the uniform image goes through an interpolating/convolving fetch in floating point",
                 "HSL operators with a component-alpha mask are defined as DST and are not a presentation of 'no mask'",
                 "565 destinations are compared with 565 destinations only"],
)

CHECKS["C13"] = dict(
    level="exploration",
    rule=('(gradient) rapidcheck: 1-8 stops with non-decreasing positions in [0,1] incl. repeated positions and gaps at both '
          'ends; linear (incl. horizontal/vertical axes), radial (concentric, nested, disjoint, r=0, equal radii) and conical '
          'gradients (any angle incl. negative and more than one turn, -800..800 degrees; centre on a pixel centre); four repeats; identity / scale / affine / projective transforms; '
          'a8r8g8b8 and rgba_float destinations; rows of 1-40 pixels. Special modes (6% each): 1-3 px wide, 300-4000 px tall '
          'requests over almost horizontal linear gradients; geometry 16400-29000 px away from the request; internally tangent '
          'circles (a == 0 exactly; 40% of them untransformed and on the pixel grid, so that a column of pixel centres lies exactly on the tangent line, where no root exists and the pixel must be transparent). 30% of requests use OVER onto a random destination instead of SRC (pixels without admissible'
          " parameter must keep the destination exactly). 'Keystone' projective transforms (one non-zero entry in the last row); "
          '20% of requests are drawn through an a8 mask with runs of 0x00/0xff (pixels under other mask values are not asserted).'
          ' Oracle: t from the geometry in long double at the pixel centre and at positions a few 1/65536 away (scaled by the '
          'projective conditioning), colour = repeat applied to t, two neighbouring stops interpolated in non-premultiplied '
          'space, premultiplied; every channel must lie within 1 step of the range of the reference over the admissible t '
          'interval (endpoints, interior samples, both sides of every stop image); no admissible t => transparent. Skipped and '
          'counted: pixels where admissibility flips or t moves > 0.02 within the position uncertainty, REPEAT_NONE between 0/1 '
          'and the first/last stop (only one neighbouring stop), degenerate linear axes, requests the library drops (C04). '
          '(gradsafe) arbitrary stop lists (unsorted, out of range, INT32 limits), degenerate geometry, singular transforms under'
          ' ASan with a per-case watchdog. Non-trivial = a checked row crosses a stop image or a repeat seam.'),
    jobs=[
        dict(harness="gradients", prop="gradient", cases=T(30000, 300000), procs=T(8, 12)),
        dict(harness="gradients_asan", prop="gradsafe", cases=T(15000, 60000), procs=T(3, 4), args=["--watchdog", "20"]),
        dict(harness="gradients", prop="gradient", cases=T(15000, 200000), procs=T(1, 2), env={"PIXMAN_DISABLE": "fast sse2 ssse3 mmx"}, tag="gradient_general"),
    ],
    floor=T(200000, 3000000), nt_floor=T(50000, 800000),
    assumptions=["orientation conventions (conical: t = 1 - (atan2(dy,dx) + angle)/2pi) are taken from the library's documentation comments",
                 "a relative error of 2e-5 in t is allowed on top of the position uncertainty (t is carried in 16.16 and evaluated in single precision)",
                 "under REPEAT_NONE, t inside [0,1] but before the first / after the last stop is not asserted (the statement names two neighbouring stops; there is only one)"],
)

CHECKS["C17"] = dict(
    level="exploration",
    rule=('(cache) rapidcheck histories of freeze / thaw / insert / lookup / remove / draw / insert_block / remove_block over a '
          'key pool whose (font,glyph) sums collide, against a model map + recency list: lookup is non-NULL exactly for model '
          "keys and returns the entry insert returned; insert fails exactly at capacity; the caller's image is scribbled and "
          'destroyed after insertion and the entry must still draw like the inserted image (and report its extents); after a thaw'
          ' to zero the survivors must be a most-recently-used prefix: all (never more than the high-water mark), the low-water '
          'count, or none (only if more removals/evictions than the high-water mark happened since the table was last cleared); '
          'every call returns within a 10 s watchdog. Run on the hook build with a 16-slot table (HIGH 8, LOW 4: full table, '
          'tombstone build-up and collisions within a few commands) under ASan, on the real constants, and (bigcache) at the real'
          ' capacity of 32768. (draw) 1-12 glyphs of a8/a1/a4/a8r8g8b8/x8r8g8b8/r3g3b2/a8b8g8r8/b8g8r8a8/a4r4g4b4 at positions '
          'partly/wholly outside, 8 destination formats with multi-box clips, all operators, solid/bits/gradient sources: '
          'composite_glyphs_no_mask must equal per-glyph composite32 with a copy of the glyph (component alpha iff the format has'
          ' A and RGB), composite_glyphs must equal ADD-accumulating (white IN glyph) into a zeroed a8/a1/a4/a8r8g8b8 mask and '
          'one composite32, bit for bit on defined bits. Mask formats of composite_glyphs also include a8b8g8r8, b8g8r8a8 and '
          'r8g8b8a8. Transformed sources are used inside the drawable domain only (each per-glyph rectangle). Non-trivial = a '
          'thaw that evicts, a full table, or removals among >= 3 entries (cache); overlapping glyphs of >= 2 formats (draw). '
          "Also run coverage-guided: the libFuzzer target fz_glyphs decodes the fuzzer's bytes through the same generator into "
          'the same oracle (ASan build, 16-slot glyph table).'),
    jobs=[
        dict(harness="glyphs_small", prop="cache", cases=T(6000, 100000), procs=T(4, 8), args=["--watchdog", "10"]),
        dict(harness="glyphs", prop="cache", cases=T(4000, 60000), procs=T(2, 4), args=["--watchdog", "10"]),
        dict(harness="glyphs", prop="bigcache", cases=T(2, 8), procs=T(3, 8), args=["--watchdog", "120"]),
        dict(harness="glyphs", prop="draw", cases=T(8000, 150000), procs=T(4, 8)),
        dict(harness="glyphs_asan", prop="draw", cases=T(2500, 50000), procs=T(2, 4)),
          dict(harness="fz_glyphs", prop="cache", kind="fuzz", cases=T(40000, 1500000), procs=T(2, 3), max_len=600)],
    floor=T(40000, 600000), nt_floor=T(10000, 150000),
    assumptions=["callers look a key up before inserting it (duplicate inserts are not generated) and insert only into a frozen cache",
                 "entries evicted by a thaw leave tombstones like removed ones; 'above the high-water mark' counts glyphs plus tombstones, as the implementation documents (it then dumps the whole table)",
                 "mask formats for composite_glyphs are the ones pixman_glyph_get_mask_format can return (a1, a4, a8, a8r8g8b8)",
                 "the small-table build differs from the shipped one only in the two constants (hook 3)"],
)

CHECKS["C14"] = dict(
    level="exploration",
    rule=('rapidcheck histories (up to ~50 commands) over long-lived source (bits of 7 formats incl. indexed and 10 bpc, or a '
          'linear gradient), mask, destination and two alpha-map images: set_transform / set_filter (incl. two convolution '
          'kernels that share size and leading coefficients) / set_repeat / set_clip_region (16- and 32-bit entry, NULL) / '
          'has_client_clip / source_clipping / set_alpha_map (attach, move, share between owners, detach) / component_alpha / '
          'accessors on-off (also on the alpha-map images) / set_indexed / set_dither, direct writes into the pixel storage, and '
          'composite checkpoints, with values from pools of 6 so that repeats and A->B->A returns are common (explicit '
          'A,draw,B,draw,A,draw motifs are appended). The clip pool contains a set-but-empty region; the mask is read at the '
          "source's position or at its origin; a 'twin' motif toggles the mask's component-alpha setting between identical "
          'requests on a source and mask of equal format and position. The replicas are drawn on a freshly started thread (so '
          "that the drawing thread's fast-path cache is part of the history being tested). At every checkpoint the request is "
          "also drawn on freshly created replicas that receive only the model's current values (one setter each) and the current "
          'pixel bytes; destinations and destination alpha maps must be identical on defined bits. Non-trivial = >= 2 '
          'checkpoints, >= 2 different properties of an already-used image changed, and some property returned to an earlier '
          'value.'),
    jobs=[
        dict(harness="history", prop="history", cases=T(12000, 250000), procs=T(6, 12)),
        dict(harness="history_asan", prop="history", cases=T(3000, 60000), procs=T(2, 4)),
    ],
    floor=T(50000, 1000000), nt_floor=T(10000, 200000),
    assumptions=["an alpha-map image attached to two owners is one shared object in the replicas too",
                 "the replica is built with one setter call per property in a fixed order; equality with the long-lived images is the property"],
)

CHECKS["C20"] = dict(
    level="exploration",
    rule=('rapidcheck histories over a pool of 6 image slots (bits with library-owned and caller-owned buffers, indexed, solid, '
          'linear/radial/conical): create, ref, unref, set_destroy_function (callback checks image/data pairing and that the '
          'image is intact), set_alpha_map (attach, re-attach the same, replace, detach, chains that must be refused), '
          'set_clip_region32 / set_clip_region (16-bit; 1-3, 15-18 and 40 rectangles), set_transform (matrix, explicit identity, NULL), set_filter with parameter arrays (replaced several '
          'times; also a refused call with 2^29 parameters), set_indexed, glyph-cache insert/remove of pool images, drawing, refused constructor calls (overflowing size, '
          'stride not a multiple of 4, format deeper than its pixel: NULL and nothing left allocated); then the pool is drained. '
          "Model: user reference count + 'held as alpha map by' edges. unref returns TRUE exactly when the model's count reaches "
          'zero; each destroy callback fires exactly once and exactly then; maps stay alive while attached and die with their '
          "owner; refused chains do not extend lifetimes; after draining the library's live-allocation counter is back to its "
          'starting value; built with ASan (use after free, double free) and LSan; a second job runs the same histories against '
          'the 16-slot glyph table of hook 3 (every slot incl. the last holds a glyph at some point). Non-trivial = a map is '
          'unreferenced by the user before its owner, or an owned parameter buffer is replaced twice.'),
    jobs=[dict(harness="lifetime_asan", prop="lifetime", cases=T(22500, 300000), procs=T(8, 12)),
          # the same histories against the 16-slot glyph table of hook 3: every slot of the table, the last one included, holds
          # a glyph of a pool image at some point before the cache is destroyed
          dict(harness="lifetime_small", prop="lifetime", cases=T(12000, 150000), procs=T(3, 4))],
    floor=T(120000, 2000000), nt_floor=T(22500, 300000),
    assumptions=["images are never touched after the model says their last reference is gone (that would be a caller error)",
                 "the live-allocation counter covers allocations made by the library (compile-time rename of malloc/calloc/realloc/free in the asan variant)"],
)

CHECKS["C15"] = dict(
    level="fault_enumeration",
    rule=("rapidcheck scenarios (short API programs): 16/32-bit region algebra on multi-rectangle regions (init_rects with up to 87 "
          "scattered boxes so that validate() outgrows its stack array, union/intersect/subtract/inverse/copy/union_rect/"
          "translate chains), image constructors (library-owned bits, three gradients, solid), allocating setters (transform, "
          "filter parameters, multi-box clip; half of them on a destination that already has a clip: after a failed replacement drawing must stay inside the old or the new clip) followed by a draw, fill_rectangles with > 6 rectangles, composites that need heap "
          "scanline buffers (700 px wide 10 bpc / 2100 px 8 bpc rows, destination alpha maps, wide stores, division operators), "
          "composite_trapezoids/_triangles, glyph cache create/insert/composite_glyphs(_no_mask), "
          "pixman_filter_create_separable_convolution, 16<->32-bit region conversion through clip + compute_composite_region. "
          "Each scenario is run fault-free (counting its N allocations) and then for every k = 1..N with only the k-th allocation "
          "failing and with the k-th and all later ones failing (exhaustive over k). Oracle: no ASan report; the library's live "
          "allocation count returns to its starting value after every run; constructors return NULL or an object that can be "
          "drawn with and destroyed; region operations return FALSE with the broken region (n_rects 0, not_empty FALSE) which later "
          "operations propagate and fini accepts, TRUE results pass selfcheck and equal the fault-free results; setters report "
          "FALSE or take effect (the image then renders like one with exactly the reported settings, or the void draw skipped "
          "work); void drawing changes nothing outside the request; a failed glyph insert leaves no entry. Non-trivial = a fault was "
          "actually injected into an allocation of the scenario."),
    jobs=[dict(harness="oom_asan", prop="oom", cases=T(1400, 8000), procs=T(8, 14))],
    floor=T(8000, 80000), nt_floor=T(4000, 40000),
    assumptions=["allocation failure is injected through a compile-time rename of malloc/calloc/realloc/free in the library objects (asan variant); allocations made by libc on the library's behalf (none today) would not be seen",
                 "per the statement, void drawing may skip work after a failed allocation; pixels inside the request are not asserted then"],
)

CHECKS["C16"] = dict(
    level="exploration",
    rule=('rapidcheck workloads: a pool of 1-5 source images shared read-only by all threads (bits of any format with '
          'transforms/filters/repeat/clip/alpha maps, solid fills, gradients; each used once on the main thread before any thread'
          ' starts) plus a shared read-only 16- and 32-bit region; 2-16 barrier-started threads, each with a private destination '
          '(any writable format, optional clip / alpha map), 0-2 private sources and a program of 3-14 requests: composite32 (all'
          ' operators, shared or private source and mask), fill_rectangles (1-8 rectangles), pixman_fill, 16/32-bit region '
          'algebra with the shared region as an operand, composite_trapezoids / composite_triangles, glyph drawing through a '
          'thread-private glyph cache; 25% of workloads run the same program on every thread with different data. The threaded '
          'repetitions run before the single-threaded reference, so that lazily initialised library state is first touched '
          "concurrently. Every workload is executed 3 times (60 on replay). Oracles: (1) plain -O2 SIMD build: each thread's "
          'digest (destination + alpha-map bits + region results + return values) equals that of the same program run alone on '
          'the main thread; (2) ThreadSanitizer build of library and harness: any data-race report is a violation. Non-trivial = '
          'at least two threads, and one shared image used by at least two of them.'),
    jobs=[dict(harness="threads", prop="threads", cases=T(1500, 20000), procs=T(4, 6), schedule_dependent=True),
          dict(harness="threads_tsan", prop="threads", cases=T(500, 6000), procs=T(8, 10), schedule_dependent=True),
          # cold start: each case in a forked child of a process that never draws, so that the very first drawing calls are
          # concurrent (implementation chain / CPU detection set up before or safely)
          dict(harness="threads_tsan", prop="coldstart", cases=T(150, 2500), procs=T(3, 4), schedule_dependent=True),
          dict(harness="threads", prop="coldstart", cases=T(400, 6000), procs=T(2, 3), schedule_dependent=True)],
    floor=T(2000, 60000), nt_floor=T(500, 10000),
    assumptions=["schedules are the operating system's, not enumerated: the digest oracle sees a race only when an interleaving that corrupts a result occurs in one of the repetitions; the ThreadSanitizer oracle is schedule-insensitive (happens-before) but needs both accesses to be executed by the workload",
                 "the first use of every shared image is made on the main thread before the threads start (the precondition in the statement)",
                 "image accessors are not used in this harness (they are client code)"],
)
