/* Allocation shims for the asan variant: pixman is compiled with
 * -Dmalloc=vf_malloc etc. (no source change), so every allocation the library
 * makes goes through here.  The harness can arm a fault plan and read the
 * live-block counter.  See DESIGN.md §1.1 / C15 / C20. */
#include <stdlib.h>
#include <stdint.h>

long vf_alloc_calls = 0;      /* allocation attempts since reset          */
long vf_alloc_live = 0;       /* blocks allocated by the library and not yet freed */
long vf_fail_at = -1;         /* 1-based index of the attempt that fails (-1: none) */
int  vf_fail_persistent = 0;  /* also fail every later attempt            */
long vf_failed = 0;           /* how many attempts were failed            */
unsigned long vf_last_size = 0;

static int should_fail (void)
{
    vf_alloc_calls++;
    if (vf_fail_at > 0 &&
	(vf_alloc_calls == vf_fail_at || (vf_fail_persistent && vf_alloc_calls > vf_fail_at)))
    {
	vf_failed++;
	return 1;
    }
    return 0;
}

void *vf_malloc (size_t n)
{
    void *p;
    if (should_fail ()) return NULL;
    vf_last_size = n;
    p = malloc (n);
    if (p) vf_alloc_live++;
    return p;
}

void *vf_calloc (size_t a, size_t b)
{
    void *p;
    if (should_fail ()) return NULL;
    vf_last_size = a * b;
    p = calloc (a, b);
    if (p) vf_alloc_live++;
    return p;
}

void *vf_realloc (void *q, size_t n)
{
    void *p;
    if (should_fail ()) return NULL;
    vf_last_size = n;
    p = realloc (q, n);
    if (p && !q) vf_alloc_live++;
    return p;
}

void vf_free (void *p)
{
    if (p) vf_alloc_live--;
    free (p);
}
