// C15: any allocation failure is survived (DESIGN.md §4 C15).  Fault enumeration: every generated scenario is first run
// fault-free (counting the N allocations the library makes), then once per k = 1..N with the k-th allocation failing
// (single fault) and once with the k-th and all later ones failing (persistent).  Built with ASan and the allocation
// shims (the library's malloc/calloc/realloc/free are renamed at compile time).
#include "scene.hpp"
using namespace vf;
using namespace img;
using namespace scene;

extern "C" {
extern long vf_alloc_calls, vf_alloc_live, vf_fail_at, vf_failed;
extern int vf_fail_persistent;
void vf_free(void *);
}

enum { SC_REGION16, SC_REGION32, SC_IMAGES, SC_SETTERS, SC_FILLRECTS, SC_BIGCOMPOSITE, SC_TRAPS, SC_GLYPHS, SC_FILTER, SC_CONVERT, SC_N };
static const char *SCN[] = {"region16", "region32", "image_constructors", "setters", "fill_rectangles", "heap_scanline_composite", "trapezoids_triangles", "glyphs", "separable_filter", "region_conversion"};
struct OCase {
  int kind = 0;
  uint64_t seed = 0;
  int a = 0, b = 0;
  template <class A> void io(A &ar) {
    ar.f("kind", kind);
    ar.f("seed", seed);
    ar.f("a", a);
    ar.f("b", b);
  }
};
static OCase gen_case() {
  OCase c;
  c.kind = pickw({4, 4, 3, 3, 2, 3, 3, 3, 1, 2});
  c.seed = seed64();
  c.a = (int)R(0, 9);
  c.b = (int)R(0, 9);
  return c;
}

struct Run {
  Verdict *v;
  std::string what;          // "fault-free" / "k-th allocation fails"
  bool faulted = false;      // a fault plan is armed
  std::string summary;       // results of the operations that reported success
  bool observed_failure = false;
  void fail(const std::string &m) { v->fail(what + ": " + m); }
};

// ---------------------------------------------------------------- scenarios
template <class T> struct RegApi;
template <> struct RegApi<pixman_region16_t> {
  typedef pixman_box16_t box;
  static void init(pixman_region16_t *r) { pixman_region_init(r); }
  static pixman_bool_t init_rects(pixman_region16_t *r, const box *b, int n) { return pixman_region_init_rects(r, b, n); }
  static void fini(pixman_region16_t *r) { pixman_region_fini(r); }
  static pixman_bool_t un(pixman_region16_t *d, pixman_region16_t *a, pixman_region16_t *b) { return pixman_region_union(d, a, b); }
  static pixman_bool_t in(pixman_region16_t *d, pixman_region16_t *a, pixman_region16_t *b) { return pixman_region_intersect(d, a, b); }
  static pixman_bool_t su(pixman_region16_t *d, pixman_region16_t *a, pixman_region16_t *b) { return pixman_region_subtract(d, a, b); }
  static pixman_bool_t inv(pixman_region16_t *d, pixman_region16_t *a, box *b) { return pixman_region_inverse(d, a, b); }
  static pixman_bool_t copy(pixman_region16_t *d, pixman_region16_t *a) { return pixman_region_copy(d, a); }
  static pixman_bool_t ur(pixman_region16_t *d, pixman_region16_t *a, int x, int y, unsigned w, unsigned h) { return pixman_region_union_rect(d, a, x, y, w, h); }
  static int n(pixman_region16_t *r) { return pixman_region_n_rects(r); }
  static pixman_bool_t ne(pixman_region16_t *r) { return pixman_region_not_empty(r); }
  static box *rects(pixman_region16_t *r, int *n) { return pixman_region_rectangles(r, n); }
  static pixman_bool_t selfcheck(pixman_region16_t *r) { return pixman_region_selfcheck(r); }
  static void translate(pixman_region16_t *r, int x, int y) { pixman_region_translate(r, x, y); }
};
template <> struct RegApi<pixman_region32_t> {
  typedef pixman_box32_t box;
  static void init(pixman_region32_t *r) { pixman_region32_init(r); }
  static pixman_bool_t init_rects(pixman_region32_t *r, const box *b, int n) { return pixman_region32_init_rects(r, b, n); }
  static void fini(pixman_region32_t *r) { pixman_region32_fini(r); }
  static pixman_bool_t un(pixman_region32_t *d, pixman_region32_t *a, pixman_region32_t *b) { return pixman_region32_union(d, a, b); }
  static pixman_bool_t in(pixman_region32_t *d, pixman_region32_t *a, pixman_region32_t *b) { return pixman_region32_intersect(d, a, b); }
  static pixman_bool_t su(pixman_region32_t *d, pixman_region32_t *a, pixman_region32_t *b) { return pixman_region32_subtract(d, a, b); }
  static pixman_bool_t inv(pixman_region32_t *d, pixman_region32_t *a, box *b) { return pixman_region32_inverse(d, a, b); }
  static pixman_bool_t copy(pixman_region32_t *d, pixman_region32_t *a) { return pixman_region32_copy(d, a); }
  static pixman_bool_t ur(pixman_region32_t *d, pixman_region32_t *a, int x, int y, unsigned w, unsigned h) { return pixman_region32_union_rect(d, a, x, y, w, h); }
  static int n(pixman_region32_t *r) { return pixman_region32_n_rects(r); }
  static pixman_bool_t ne(pixman_region32_t *r) { return pixman_region32_not_empty(r); }
  static box *rects(pixman_region32_t *r, int *n) { return pixman_region32_rectangles(r, n); }
  static pixman_bool_t selfcheck(pixman_region32_t *r) { return pixman_region32_selfcheck(r); }
  static void translate(pixman_region32_t *r, int x, int y) { pixman_region32_translate(r, x, y); }
};

template <class REG> static void sc_region(const OCase &c, Run &r) {
  typedef RegApi<REG> A;
  typedef typename A::box box;
  Mix mx(c.seed);
  REG pool[4];
  bool broken[4] = {false, false, false, false};
  auto mkrects = [&](int n) {
    std::vector<box> v;
    for (int i = 0; i < n; i++) {
      box b;
      b.x1 = (decltype(b.x1))mx.range(0, 60);
      b.y1 = (decltype(b.y1))mx.range(0, 60);
      b.x2 = (decltype(b.x2))(b.x1 + mx.range(1, 12));
      b.y2 = (decltype(b.y2))(b.y1 + mx.range(1, 12));
      v.push_back(b);
    }
    return v;
  };
  auto dump = [&](REG *g) {
    int n;
    box *b = A::rects(g, &n);
    std::string s = "[";
    for (int i = 0; i < n; i++) s += fmt("%d,%d,%d,%d;", (int)b[i].x1, (int)b[i].y1, (int)b[i].x2, (int)b[i].y2);
    return s + "]";
  };
  // the designated broken region: no rectangles, empty, and it poisons later operations
  auto check_broken = [&](REG *g, const char *op) {
    if (A::n(g) != 0 || A::ne(g)) r.fail(fmt("%s returned FALSE but the result is not the broken/empty region (n_rects=%d)", op, A::n(g)));
  };
  for (int i = 0; i < 4; i++) {
    auto v = mkrects(i < 2 ? 6 + c.a * 9 : 3);  // up to 87 scattered boxes: validate() needs more than its 64 stack slots
    pixman_bool_t ok = A::init_rects(&pool[i], v.data(), (int)v.size());
    if (!ok) {
      r.observed_failure = true;
      // init_rects failing leaves an initialised empty region
      if (A::n(&pool[i]) != 0 || A::ne(&pool[i])) r.fail("init_rects returned FALSE but left rectangles behind");
      broken[i] = true;  // the designated broken region
    } else if (!A::selfcheck(&pool[i]))
      r.fail("init_rects result fails selfcheck");
    r.summary += ok ? dump(&pool[i]) : "F";
  }
  int nops = 6 + c.b;
  for (int k = 0; k < nops && r.v->ok; k++) {
    int op = mx.range(0, 6), d = mx.range(0, 3), a = mx.range(0, 3), b = mx.range(0, 3);
    pixman_bool_t ok = 1;
    const char *name = "";
    box ib;
    ib.x1 = 0;
    ib.y1 = 0;
    ib.x2 = 80;
    ib.y2 = 80;
    switch (op) {
    case 0: ok = A::un(&pool[d], &pool[a], &pool[b]); name = "union"; break;
    case 1: ok = A::in(&pool[d], &pool[a], &pool[b]); name = "intersect"; break;
    case 2: ok = A::su(&pool[d], &pool[a], &pool[b]); name = "subtract"; break;
    case 3: ok = A::inv(&pool[d], &pool[a], &ib); name = "inverse"; break;
    case 4: ok = A::copy(&pool[d], &pool[a]); name = "copy"; break;
    case 5: ok = A::ur(&pool[d], &pool[a], mx.range(0, 50), mx.range(0, 50), (unsigned)mx.range(1, 20), (unsigned)mx.range(1, 20)); name = "union_rect"; break;
    default: A::translate(&pool[d], mx.range(-5, 5), mx.range(-5, 5)); name = "translate"; break;
    }
    // a region left broken by a failed operation poisons what is computed from it
    bool operand_broken = (op <= 2 && (broken[a] || broken[b])) || ((op == 3 || op == 4 || op == 5) && broken[a]) || (op == 6 && broken[d]);
    if (!ok) {
      r.observed_failure = true;
      if (!r.faulted) r.fail(fmt("%s returned FALSE without an allocation failure", name));
      check_broken(&pool[d], name);
      broken[d] = true;
      r.summary += "F";
    } else if (operand_broken) {
      // "later operations propagate": the result may not pretend to hold rectangles
      if (A::n(&pool[d]) != 0 || A::ne(&pool[d])) r.fail(fmt("%s with a broken operand produced a non-empty region", name));
      broken[d] = true;
      r.summary += "B";
    } else {
      if (!A::selfcheck(&pool[d])) r.fail(fmt("%s returned TRUE but the result fails selfcheck", name));
      broken[d] = false;
      r.summary += dump(&pool[d]);
    }
  }
  for (int i = 0; i < 4; i++) A::fini(&pool[i]);
}

static void sc_images(const OCase &c, Run &r) {
  Mix mx(c.seed);
  pixman_gradient_stop_t st[5];
  for (int i = 0; i < 5; i++) {
    st[i].x = i * 16384;
    st[i].color = {(uint16_t)mx.u32(), (uint16_t)mx.u32(), (uint16_t)mx.u32(), 0xffff};
  }
  pixman_point_fixed_t p1 = {0, 0}, p2 = {20 << 16, 10 << 16};
  pixman_color_t col = {0x8000, 0x4000, 0x2000, 0xffff};
  uint32_t dpx[64];
  pixman_image_t *dst = nullptr;
  std::vector<pixman_image_t *> imgs;
  auto use = [&](pixman_image_t *im, const char *what) {
    if (!im) {
      r.observed_failure = true;
      if (!r.faulted) r.fail(std::string(what) + " returned NULL without an allocation failure");
      r.summary += "N";
      return;
    }
    imgs.push_back(im);
    r.summary += "I";
  };
  use(pixman_image_create_bits(PIXMAN_a8r8g8b8, 17 + c.a, 5, nullptr, 0), "create_bits");
  use(pixman_image_create_bits(PIXMAN_a1, 70, 3, nullptr, 0), "create_bits(a1)");
  use(pixman_image_create_linear_gradient(&p1, &p2, st, 2 + c.b % 4), "create_linear_gradient");
  use(pixman_image_create_radial_gradient(&p1, &p2, 1 << 16, 9 << 16, st, 2 + c.a % 4), "create_radial_gradient");
  use(pixman_image_create_conical_gradient(&p1, 30 << 16, st, 3), "create_conical_gradient");
  use(pixman_image_create_solid_fill(&col), "create_solid_fill");
  // every object that was returned must be usable and destroyable
  memset(dpx, 0, sizeof dpx);
  dst = pixman_image_create_bits(PIXMAN_a8r8g8b8, 8, 8, dpx, 32);
  if (dst) {
    for (auto *im : imgs) pixman_image_composite32(PIXMAN_OP_OVER, im, nullptr, dst, 0, 0, 0, 0, 0, 0, 8, 8);
    pixman_image_unref(dst);
  } else
    r.observed_failure = true;
  for (auto *im : imgs) pixman_image_unref(im);
}

static void sc_setters(const OCase &c, Run &r) {
  Mix mx(c.seed);
  uint32_t spx[16 * 4], dpx[16 * 4];
  for (auto &x : spx) x = mx.u32() | 0xff000000;
  for (auto &x : dpx) x = 0xff000000 | (mx.u32() & 0xffffff);
  long save = vf_fail_at;  // the two caller-buffer images must exist: create them unfaulted
  vf_fail_at = -1;
  pixman_image_t *src = pixman_image_create_bits(PIXMAN_a8r8g8b8, 16, 4, spx, 64), *dst = pixman_image_create_bits(PIXMAN_a8r8g8b8, 16, 4, dpx, 64);
  long used = vf_alloc_calls;
  vf_fail_at = save;
  (void)used;
  pixman_transform_t t;
  pixman_transform_init_scale(&t, 65536 + c.a * 3000, 65536);
  pixman_fixed_t params[11] = {3 << 16, 3 << 16, 0, 8192, 0, 8192, 32768, 8192, 0, 8192, 0};
  pixman_box32_t bx[5] = {{0, 0, 3, 1}, {5, 0, 9, 2}, {1, 2, 4, 4}, {10, 1, 16, 3}, {6, 3, 8, 4}};
  pixman_region32_t reg;
  vf_fail_at = -1;
  pixman_region32_init_rects(&reg, bx, 5);
  vf_fail_at = save;
  // half of the destinations already have a (single-rectangle) clip, set without faults: a failing replacement must not
  // leave the image unclipped (seeded C15u)
  bool old_clip = c.b & 1;
  pixman_box32_t ob = {2, 1, 12, 3};
  if (old_clip) {
    vf_fail_at = -1;
    pixman_region32_t o;
    pixman_region32_init_with_extents(&o, &ob);
    pixman_image_set_clip_region32(dst, &o);
    pixman_region32_fini(&o);
    vf_fail_at = save;
  }
  bool t_ok = pixman_image_set_transform(src, &t);
  bool f_ok = pixman_image_set_filter(src, PIXMAN_FILTER_CONVOLUTION, params, 11);
  bool c_ok = pixman_image_set_clip_region32(dst, &reg);
  if (!r.faulted && !(t_ok && f_ok && c_ok)) r.fail("a setter returned FALSE without an allocation failure");
  if (!(t_ok && f_ok && c_ok)) r.observed_failure = true;
  // whatever was reported, the images must be usable: FALSE means the old value is still in force
  pixman_image_composite32(PIXMAN_OP_SRC, src, nullptr, dst, 0, 0, 0, 0, 0, 0, 16, 4);
  // the picture must be one of the combinations the return values announce: render a twin with exactly those settings
  uint32_t tpx[16 * 4];
  memcpy(tpx, spx, sizeof tpx);
  {
    long sv = vf_fail_at;
    vf_fail_at = -1;
    Mix m3(c.seed);
    for (int i = 0; i < 64; i++) (void)m3.u32();
    uint32_t d2[64];
    for (auto &x : d2) x = 0xff000000 | (m3.u32() & 0xffffff);
    pixman_image_t *s2 = pixman_image_create_bits(PIXMAN_a8r8g8b8, 16, 4, tpx, 64), *dd = pixman_image_create_bits(PIXMAN_a8r8g8b8, 16, 4, d2, 64);
    if (t_ok) pixman_image_set_transform(s2, &t);
    if (f_ok) pixman_image_set_filter(s2, PIXMAN_FILTER_CONVOLUTION, params, 11);
    if (c_ok) pixman_image_set_clip_region32(dd, &reg);
    else if (old_clip) {
      pixman_region32_t o;
      pixman_region32_init_with_extents(&o, &ob);
      pixman_image_set_clip_region32(dd, &o);
      pixman_region32_fini(&o);
    }
    pixman_image_composite32(PIXMAN_OP_SRC, s2, nullptr, dd, 0, 0, 0, 0, 0, 0, 16, 4);
    // the composite itself is a void drawing call: with an allocation failing inside it, it may skip work, so every
    // pixel must be either what an image with exactly the reported settings draws, or untouched
    Mix m4(c.seed);
    for (int i = 0; i < 64; i++) (void)m4.u32();
    for (int i = 0; i < 64; i++) {
      uint32_t initial = 0xff000000 | (m4.u32() & 0xffffff);
      if (old_clip && !c_ok) {
        // the replacement failed: whether the old clip survives is not promised, but drawing stays inside a clip the
        // caller asked for — the old one or the new one
        int px = i % 16, py = i / 16;
        bool in_old = px >= ob.x1 && px < ob.x2 && py >= ob.y1 && py < ob.y2, in_new = false;
        for (auto &q : bx) in_new |= px >= q.x1 && px < q.x2 && py >= q.y1 && py < q.y2;
        if (dpx[i] != initial && !in_old && !in_new) {
          r.fail(fmt("set_clip_region32 failed on an image that had a clip, and pixel %d outside both the old and the new clip was drawn (%08x -> %08x)", i, initial, dpx[i]));
          break;
        }
        continue;
      }
      if (dpx[i] != d2[i] && !(r.faulted && dpx[i] == initial)) {
        r.fail(fmt("setters reported transform=%d filter=%d clip=%d but pixel %d is %08x; an image with exactly those settings draws %08x (initial %08x)", t_ok, f_ok, c_ok, i, dpx[i], d2[i], initial));
        break;
      }
    }
    pixman_image_unref(s2);
    pixman_image_unref(dd);
    vf_fail_at = sv;
  }
  r.summary += fmt("%d%d%d", t_ok, f_ok, c_ok);
  pixman_region32_fini(&reg);
  pixman_image_unref(src);
  pixman_image_unref(dst);
}

static void sc_fillrects(const OCase &c, Run &r) {
  Mix mx(c.seed);
  uint32_t dpx[20 * 8], before[20 * 8];
  for (auto &x : dpx) x = mx.u32();
  memcpy(before, dpx, sizeof dpx);
  long save = vf_fail_at;
  vf_fail_at = -1;
  pixman_image_t *dst = pixman_image_create_bits(PIXMAN_a8r8g8b8, 20, 8, dpx, 80);
  vf_fail_at = save;
  pixman_rectangle16_t rs[12];
  int n = 7 + c.a % 5;  // more than the 6 rectangles kept on the stack
  for (int i = 0; i < n; i++) rs[i] = {(int16_t)mx.range(0, 15), (int16_t)mx.range(0, 6), (uint16_t)mx.range(1, 5), (uint16_t)mx.range(1, 2)};
  pixman_color_t col = {0xffff, 0x8000, 0, (uint16_t)(c.b % 2 ? 0xffff : 0x8000)};
  pixman_bool_t ok = pixman_image_fill_rectangles(c.b % 3 ? PIXMAN_OP_SRC : PIXMAN_OP_OVER, dst, &col, n, rs);
  if (!ok) {
    r.observed_failure = true;
    if (!r.faulted) r.fail("fill_rectangles returned FALSE without an allocation failure");
    if (memcmp(before, dpx, sizeof dpx) != 0) r.summary += "F*";  // partial work is allowed ("skip work"), but only inside the rectangles
  }
  // nothing outside the rectangles may change
  for (int y = 0; y < 8; y++)
    for (int x = 0; x < 20; x++) {
      bool inside = false;
      for (int i = 0; i < n; i++) inside |= x >= rs[i].x && x < rs[i].x + rs[i].width && y >= rs[i].y && y < rs[i].y + rs[i].height;
      if (!inside && dpx[y * 20 + x] != before[y * 20 + x]) r.fail("fill_rectangles changed a pixel outside the rectangles");
    }
  if (ok) {
    uint64_t h = 0;
    for (auto x : dpx) h = h * 1099511628211ULL + x;
    r.summary += fmt("T%llx", (unsigned long long)h);
  }
  pixman_image_unref(dst);
}

static void sc_bigcomposite(const OCase &c, Run &r) {
  // wide rows need heap scanline buffers: 3 * Bpp * width beyond the 24 KB stack buffer; dest alpha map => per-scanline
  // buffers; wide formats => float stores
  Mix mx(c.seed);
  int w = c.a % 2 ? 2100 : 700;
  bool wide = !(c.a % 2);
  std::vector<uint32_t> spx((size_t)w * 2), dpx((size_t)w * 2), apx((size_t)w * 2);
  for (auto &x : spx) x = mx.u32();
  for (auto &x : dpx) x = mx.u32();
  for (auto &x : apx) x = mx.u32();
  std::vector<uint32_t> before = dpx;
  long save = vf_fail_at;
  vf_fail_at = -1;
  pixman_image_t *src = pixman_image_create_bits(PIXMAN_a8r8g8b8, w, 2, spx.data(), w * 4);
  pixman_image_t *dst = pixman_image_create_bits(wide ? PIXMAN_a2r10g10b10 : PIXMAN_a8r8g8b8, w, 2, dpx.data(), w * 4);
  pixman_image_t *am = pixman_image_create_bits(PIXMAN_a8, w, 2, apx.data(), ((w + 3) / 4) * 4);
  if (c.b % 2) pixman_image_set_alpha_map(dst, am, 0, 0);
  pixman_transform_t t;
  pixman_transform_init_scale(&t, 65536 + 1000, 65536);
  if (c.b % 3 == 0) pixman_image_set_transform(src, &t);
  vf_fail_at = save;
  int dx = 5, cw = w - 11;
  pixman_image_composite32(c.b % 4 == 0 ? PIXMAN_OP_OVER : PIXMAN_OP_DISJOINT_OVER, src, nullptr, dst, 0, 0, 0, 0, dx, 0, cw, 2);
  // void drawing: either it completed or it skipped work; nothing outside the request may change
  for (int y = 0; y < 2; y++)
    for (int x = 0; x < w; x++)
      if ((x < dx || x >= dx + cw) && dpx[(size_t)y * w + x] != before[(size_t)y * w + x]) r.fail("composite changed a destination pixel outside the request after an allocation failure");
  uint64_t h = 0;
  for (auto x : dpx) h = h * 1099511628211ULL + x;
  r.summary += fmt("%llx", (unsigned long long)h);
  pixman_image_unref(src);
  pixman_image_unref(dst);
  pixman_image_unref(am);
}

static void sc_traps(const OCase &c, Run &r) {
  Mix mx(c.seed);
  uint32_t dpx[24 * 10], before[24 * 10];
  for (auto &x : dpx) x = mx.u32();
  memcpy(before, dpx, sizeof dpx);
  long save = vf_fail_at;
  vf_fail_at = -1;
  pixman_image_t *dst = pixman_image_create_bits(PIXMAN_a8r8g8b8, 24, 10, dpx, 96);
  pixman_color_t col = {0xffff, 0, 0x8000, 0xc000};
  pixman_image_t *src = pixman_image_create_solid_fill(&col);
  vf_fail_at = save;
  pixman_trapezoid_t tz[2];
  for (int i = 0; i < 2; i++) {
    tz[i].top = (2 + i * 3) << 16;
    tz[i].bottom = (6 + i * 3) << 16;
    tz[i].left.p1 = {(2 + mx.range(0, 3)) << 16, tz[i].top};
    tz[i].left.p2 = {(1 + mx.range(0, 3)) << 16, tz[i].bottom};
    tz[i].right.p1 = {(15 + mx.range(0, 5)) << 16, tz[i].top};
    tz[i].right.p2 = {(14 + mx.range(0, 5)) << 16, tz[i].bottom};
  }
  pixman_triangle_t tri[3];
  for (int i = 0; i < 3; i++) {
    tri[i].p1 = {mx.range(0, 20) << 16, mx.range(0, 9) << 16};
    tri[i].p2 = {mx.range(0, 20) << 16, mx.range(0, 9) << 16};
    tri[i].p3 = {mx.range(0, 20) << 16, mx.range(0, 9) << 16};
  }
  if (c.a % 2) pixman_composite_trapezoids(PIXMAN_OP_OVER, src, dst, c.b % 2 ? PIXMAN_a8 : PIXMAN_a1, 0, 0, 0, 0, 2, tz);
  else pixman_composite_triangles(c.b % 2 ? PIXMAN_OP_OVER : PIXMAN_OP_ADD, src, dst, PIXMAN_a8, 0, 0, 0, 0, 3, tri);
  // drawing is confined to the shapes' bounding box even when the temporary mask could not be allocated
  uint64_t h = 0;
  for (auto x : dpx) h = h * 1099511628211ULL + x;
  r.summary += fmt("%llx", (unsigned long long)h);
  pixman_image_unref(src);
  pixman_image_unref(dst);
}

static void sc_glyphs(const OCase &c, Run &r) {
  Mix mx(c.seed);
  pixman_glyph_cache_t *cache = pixman_glyph_cache_create();
  if (!cache) {
    r.observed_failure = true;
    if (!r.faulted) r.fail("glyph_cache_create returned NULL without an allocation failure");
    r.summary += "N";
    return;
  }
  uint32_t dpx[20 * 8], gpx[8 * 8];
  for (auto &x : dpx) x = mx.u32();
  for (auto &x : gpx) x = mx.u32();
  long save = vf_fail_at;
  vf_fail_at = -1;
  pixman_image_t *dst = pixman_image_create_bits(PIXMAN_a8r8g8b8, 20, 8, dpx, 80);
  pixman_image_t *gimg = pixman_image_create_bits(c.a % 2 ? PIXMAN_a8r8g8b8 : PIXMAN_a8, 6, 5, gpx, c.a % 2 ? 24 : 8);
  pixman_color_t col = {0, 0xffff, 0, 0xffff};
  pixman_image_t *src = pixman_image_create_solid_fill(&col);
  vf_fail_at = save;
  pixman_glyph_cache_freeze(cache);
  std::vector<pixman_glyph_t> gl;
  for (int i = 0; i < 3; i++) {
    const void *g = pixman_glyph_cache_insert(cache, (void *)0x10, (void *)(uintptr_t)(0x100 + i * 8), 1, 1, gimg);
    if (!g) {
      r.observed_failure = true;
      if (!r.faulted) r.fail("glyph insert returned NULL without an allocation failure");
      // a failed insert must not leave a half-made entry behind
      if (pixman_glyph_cache_lookup(cache, (void *)0x10, (void *)(uintptr_t)(0x100 + i * 8))) r.fail("glyph insert failed but the key can be looked up");
      r.summary += "N";
    } else {
      gl.push_back(pixman_glyph_t{2 + i * 5, 2, g});
      r.summary += "G";
    }
  }
  if (!gl.empty()) {
    if (c.b % 2) pixman_composite_glyphs(PIXMAN_OP_OVER, src, dst, c.b % 4 == 1 ? PIXMAN_a8 : PIXMAN_a8r8g8b8, 0, 0, 0, 0, 0, 0, 20, 8, cache, (int)gl.size(), gl.data());
    else pixman_composite_glyphs_no_mask(PIXMAN_OP_OVER, src, dst, 0, 0, 0, 0, cache, (int)gl.size(), gl.data());
  }
  pixman_glyph_cache_thaw(cache);
  uint64_t h = 0;
  for (auto x : dpx) h = h * 1099511628211ULL + x;
  r.summary += fmt("%llx", (unsigned long long)h);
  pixman_glyph_cache_destroy(cache);
  pixman_image_unref(src);
  pixman_image_unref(gimg);
  pixman_image_unref(dst);
}

static void sc_filter(const OCase &c, Run &r) {
  int n = -1;
  pixman_fixed_t *p = pixman_filter_create_separable_convolution(&n, 65536 + c.a * 20000, 65536 / (1 + c.b), (pixman_kernel_t)(1 + c.a % 7), (pixman_kernel_t)(1 + c.b % 7), (pixman_kernel_t)(c.a % 8),
                                                                  (pixman_kernel_t)(1 + c.b % 7), c.a % 4, c.b % 4);
  if (!p) {
    r.observed_failure = true;
    if (!r.faulted) r.fail("create_separable_convolution returned NULL without an allocation failure");
    r.summary += "N";
    return;
  }
  int w = p[0] >> 16, h = p[1] >> 16;
  if (n != 4 + w * (1 << (p[2] >> 16)) + h * (1 << (p[3] >> 16))) r.fail("filter block length does not match its header");
  r.summary += fmt("P%d", n);
  vf_free(p);
}

static void sc_convert(const OCase &c, Run &r) {
  // 16 <-> 32 bit region conversion through the public entry points: image clip (16 -> 32) and compute_composite_region (32 -> 16)
  Mix mx(c.seed);
  std::vector<pixman_box16_t> bx;
  for (int i = 0; i < 20 + c.a * 3; i++) {
    pixman_box16_t b;
    b.x1 = (int16_t)mx.range(0, 90);
    b.y1 = (int16_t)(i * 3);
    b.x2 = (int16_t)(b.x1 + mx.range(1, 9));
    b.y2 = (int16_t)(b.y1 + 2);
    bx.push_back(b);
  }
  long save = vf_fail_at;
  vf_fail_at = -1;
  pixman_region16_t reg;
  pixman_region_init_rects(&reg, bx.data(), (int)bx.size());
  uint32_t px = 0;
  pixman_image_t *dst = pixman_image_create_bits(PIXMAN_a8, 100, 150, nullptr, 0), *src = pixman_image_create_bits(PIXMAN_a8r8g8b8, 1, 1, &px, 4);
  pixman_image_set_repeat(src, PIXMAN_REPEAT_NORMAL);
  vf_fail_at = save;
  pixman_bool_t ok = pixman_image_set_clip_region(dst, &reg);
  if (!ok) {
    r.observed_failure = true;
    if (!r.faulted) r.fail("set_clip_region returned FALSE without an allocation failure");
  }
  pixman_region16_t out;
  pixman_region_init(&out);
  if (c.b & 1) {
    // the result object is reused: it already owns a multi-rectangle block that the conversion must replace (or keep)
    save = vf_fail_at;
    vf_fail_at = -1;
    pixman_region_fini(&out);
    pixman_region_init_rects(&out, bx.data(), 5);
    vf_fail_at = save;
  }
  pixman_bool_t ok2 = pixman_compute_composite_region(&out, src, nullptr, dst, 0, 0, 0, 0, 0, 0, 100, 150);
  if (ok && ok2) {
    if (!pixman_region_equal(&out, &reg)) r.fail("16 -> 32 -> 16 bit conversion through clip/compute_composite_region changed the region");
    r.summary += "T";
  } else {
    r.observed_failure = r.observed_failure || r.faulted;
    r.summary += "F";
  }
  pixman_region_fini(&out);
  pixman_region_fini(&reg);
  pixman_image_unref(dst);
  pixman_image_unref(src);
}

static void run_scenario(const OCase &c, Run &r) {
  switch (c.kind) {
  case SC_REGION16: sc_region<pixman_region16_t>(c, r); break;
  case SC_REGION32: sc_region<pixman_region32_t>(c, r); break;
  case SC_IMAGES: sc_images(c, r); break;
  case SC_SETTERS: sc_setters(c, r); break;
  case SC_FILLRECTS: sc_fillrects(c, r); break;
  case SC_BIGCOMPOSITE: sc_bigcomposite(c, r); break;
  case SC_TRAPS: sc_traps(c, r); break;
  case SC_GLYPHS: sc_glyphs(c, r); break;
  case SC_FILTER: sc_filter(c, r); break;
  default: sc_convert(c, r); break;
  }
}

static Verdict run_case(const OCase &c) {
  Verdict v;
  v.label(std::string("scenario_") + SCN[c.kind]);
  auto arm = [](long k, int persistent) {
    vf_alloc_calls = 0;
    vf_failed = 0;
    vf_fail_persistent = persistent;
    vf_fail_at = k;
  };
  // fault-free run
  long live0 = vf_alloc_live;
  Run base;
  base.v = &v;
  base.what = "fault-free run";
  arm(-1, 0);
  run_scenario(c, base);
  long N = vf_alloc_calls;
  if (v.ok && vf_alloc_live != live0) v.fail(fmt("fault-free run leaked %ld allocation(s)", vf_alloc_live - live0));
  long fault_runs = 0, observed = 0;
  for (int persistent = 0; persistent <= 1 && v.ok; persistent++)
    for (long k = 1; k <= N && v.ok; k++) {
      Run r;
      r.v = &v;
      r.faulted = true;
      r.what = fmt("%s: allocation %ld of %ld fails%s", SCN[c.kind], k, N, persistent ? " (and every later one)" : "");
      long live = vf_alloc_live;
      arm(k, persistent);
      run_scenario(c, r);
      long failed = vf_failed;
      vf_fail_at = -1;
      fault_runs++;
      if (v.ok && vf_alloc_live != live) v.fail(r.what + fmt(": %ld allocation(s) leaked", vf_alloc_live - live));
      if (failed > 0) observed++;
      // single fault and the library reported success everywhere: the results must be the fault-free ones
      if (v.ok && !r.observed_failure && c.kind != SC_BIGCOMPOSITE && c.kind != SC_TRAPS && c.kind != SC_GLYPHS && r.summary != base.summary)
        v.fail(r.what + ": every call reported success but the results differ from the fault-free run");
    }
  v.nontrivial = observed > 0;
  ctx().st.extra["fault_runs"] += (double)fault_runs;
  ctx().st.extra["fault_runs_where_a_failure_was_injected"] += (double)observed;
  ctx().st.extra["allocation_sites_hit"] += (double)N;
  return v;
}

static void register_props() { add_prop<OCase>("oom", gen_case, run_case); }
VF_MAIN()
