// C10: pixel formats — exact codec, widening/narrowing laws, reader agreement, store locality, accessor equivalence.
#include "img.hpp"
using namespace vf;
using namespace img;

// ---------------------------------------------------------------- accessor callbacks with address logging
static const uint8_t *g_lo[4], *g_hi[4];
static uint32_t g_key[4];  // per storage range: every byte is kept XORed with this value; the callbacks translate
static int g_nranges = 0;
static long g_acc_calls = 0, g_acc_bad = 0;
static int find_range(const void *p, int size) {
  const uint8_t *q = (const uint8_t *)p;
  for (int i = 0; i < g_nranges; i++)
    if (q >= g_lo[i] && q + size <= g_hi[i]) return i;
  return -1;
}
static bool in_ranges(const void *p, int size) { return find_range(p, size) >= 0; }
static uint32_t key_of(const void *p, int size) {
  int i = find_range(p, size);
  return i < 0 ? 0 : g_key[i] * 0x01010101u;
}
static uint32_t acc_read(const void *src, int size) {
  g_acc_calls++;
  if (!in_ranges(src, size)) {
    g_acc_bad++;
    return 0;
  }
  uint32_t k = key_of(src, size);
  switch (size) {
  case 1: return (uint8_t)(*(const uint8_t *)src ^ k);
  case 2: return (uint16_t)(*(const uint16_t *)src ^ k);
  case 4: return *(const uint32_t *)src ^ k;
  }
  g_acc_bad++;
  return 0;
}
static void acc_write(void *dst, uint32_t value, int size) {
  g_acc_calls++;
  if (!in_ranges(dst, size)) {
    g_acc_bad++;
    return;
  }
  value ^= key_of(dst, size);
  switch (size) {
  case 1: *(uint8_t *)dst = (uint8_t)value; break;
  case 2: *(uint16_t *)dst = (uint16_t)value; break;
  case 4: *(uint32_t *)dst = value; break;
  default: g_acc_bad++;
  }
}
static void acc_reset(std::initializer_list<const Image *> imgs) {
  g_nranges = 0;
  g_acc_calls = g_acc_bad = 0;
  for (auto *i : imgs) {
    g_lo[g_nranges] = i->buf.p;
    g_hi[g_nranges] = i->buf.p + i->buf.size;
    g_key[g_nranges] = 0;
    g_nranges++;
  }
}

static uint32_t expected_decode(const Image &src, int x, int y) {
  pixman_format_code_t f = src.d.code();
  uint32_t raw = raw_get(src.rowp(y), bpp(f), x);
  if (is_indexed(f)) return src.pal->rgba[raw];
  return decode8888(f, raw);
}

// ---------------------------------------------------------------- exhaustive decode / encode / round trip for one format
struct ExhCase {
  int fmt = 0, acc = 0, dx = 0;
  int dither = 0, dox = 0, doy = 0;  // dithering on the image written back to (formats with 1/2/4/8-bit channels only)
  template <class A> void io(A &a) {
    a.f("fmt", fmt);
    a.f("acc", acc);
    a.f("dx", dx);
    a.f("dither", dither);
    a.f("dox", dox);
    a.f("doy", doy);
  }
};
static ExhCase gen_exh() {
  ExhCase c;
  c.fmt = (int)R(0, NFORMATS - 1);
  c.acc = (int)R(0, 3);
  c.dx = (int)R(0, 9);
  if (coin(30)) {
    c.dither = (int)R(1, 5);
    c.dox = (int)R(-5, 70);
    c.doy = (int)R(-5, 70);
  }
  return c;
}

static Verdict run_exh(const ExhCase &c) {
  Verdict v;
  pixman_format_code_t f = FORMATS[c.fmt].code;
  v.label(std::string("fmt_") + FORMATS[c.fmt].name);
  if (is_yuv(f)) {
    v.label("yuv_skipped_no_exact_rule");
    return v;
  }
  int BPP = bpp(f);
  // all pixel values for <= 16 bpp, structured sample otherwise
  std::vector<uint32_t> vals;
  if (is_float(f)) {
    // floats handled in the random property
    v.label("float_in_codec_prop");
    return v;
  }
  if (BPP <= 16)
    for (uint32_t i = 0; i < (1u << BPP); i++) vals.push_back(i);
  else {
    uint32_t all = fieldmask(BPP);
    vals.push_back(0);
    vals.push_back(all);
    for (int b = 0; b < BPP; b++) {
      vals.push_back(1u << b);
      vals.push_back(all ^ (1u << b));
    }
    Shifts sh = shifts(f);
    int bits[4] = {abits(f), rbits(f), gbits(f), bbits(f)}, shf[4] = {sh.a, sh.r, sh.g, sh.b};
    Mix mx(c.fmt * 7919 + 13);
    for (int ch = 0; ch < 4; ch++)
      if (bits[ch])
        for (uint32_t k = 0; k <= fieldmask(bits[ch]); k++) {
          vals.push_back((k << shf[ch]));                                              // ramp, others 0
          vals.push_back(((k << shf[ch]) | (all & ~(fieldmask(bits[ch]) << shf[ch]))));  // ramp, others 1
          vals.push_back((mx.u32() & all & ~(fieldmask(bits[ch]) << shf[ch])) | (k << shf[ch]));
        }
    for (int i = 0; i < 20000; i++) vals.push_back(mx.u32() & all);
  }
  int n = (int)vals.size();
  int W = std::min(n, 256), H = (n + W - 1) / W;
  Bits sd;
  sd.fmt = c.fmt;
  sd.w = W;
  sd.h = H;
  sd.fill = FILL_ZERO;
  sd.seed = 42;
  auto src = make_image(sd);
  for (int i = 0; i < n; i++) raw_put(src->rowp(i / W), BPP, i % W, vals[i]);
  bool wide = !is_narrow(f);
  if (!wide) {
    // (1) decode into a8r8g8b8
    Bits dd;
    dd.fmt = fmt_index(PIXMAN_a8r8g8b8);
    dd.w = W + c.dx;
    dd.h = H;
    dd.fill = FILL_RANDOM;
    dd.seed = 7;
    auto dst = make_image(dd);
    acc_reset({src.get(), dst.get()});
    if ((c.acc & 1) && bpp(src->d.code()) <= 32) pixman_image_set_accessors(src->im, acc_read, acc_write);
    if ((c.acc & 2) && bpp(dst->d.code()) <= 32) pixman_image_set_accessors(dst->im, acc_read, acc_write);
    pixman_image_composite32(PIXMAN_OP_SRC, src->im, nullptr, dst->im, 0, 0, 0, 0, c.dx, 0, W, H);
    for (int i = 0; i < n && v.ok; i++) {
      uint32_t got = raw_get(dst->rowp(i / W), 32, i % W + c.dx), want = expected_decode(*src, i % W, i / W);
      if (got != want) v.fail(fmt("decode %s pixel 0x%x -> a8r8g8b8 0x%08x, reference (bit replication, absent alpha=1, absent colour=0) 0x%08x", FORMATS[c.fmt].name, vals[i], got, want));
    }
    // laws (4): zero -> zero colour, max -> max, monotone per channel (via the reference equality above they hold iff the reference has them; check the reference itself too)
    if (packed_rgb(f)) {
      int bits[4] = {abits(f), rbits(f), gbits(f), bbits(f)};
      for (int ch = 0; ch < 4; ch++)
        if (bits[ch]) {
          uint32_t prev = 0;
          for (uint32_t k = 0; k <= fieldmask(bits[ch]); k++) {
            uint32_t w8 = widen8(k, bits[ch]);
            if (k && w8 <= prev) v.fail("reference widening not strictly monotone (harness bug)");
            prev = w8;
          }
          if (widen8(0, bits[ch]) != 0 || widen8(fieldmask(bits[ch]), bits[ch]) != 0xff) v.fail("reference widening endpoints (harness bug)");
        }
    }
    if (g_acc_bad) v.fail(fmt("accessor called with an address outside the pixel storage (%ld of %ld calls)", g_acc_bad, g_acc_calls));
    if ((c.acc & 3) && g_acc_calls == 0) v.fail("accessors were set but never called");  // narrow non-YUV formats only reach here
    // (2)+(3) encode back: a8r8g8b8 -> F must be truncation; F -> 8888 -> F is the identity on defined bits
    if (v.ok && FORMATS[c.fmt].dst_ok && !is_indexed(f)) {
      Bits bd = sd;
      bd.fill = FILL_RANDOM;
      bd.seed = 99;
      auto back = make_image(bd);
      acc_reset({back.get(), dst.get()});
      if ((c.acc & 1) && bpp(back->d.code()) <= 32) pixman_image_set_accessors(back->im, acc_read, acc_write);
      // A value that the format represents exactly must survive a dithered store: the noise that is added before
      // truncation is smaller than one step.  (Asserted for channel widths 1, 2, 4 and 8 only: for 3, 5 and 6 bits the
      // 8-bit intermediate is a bit-replicated value, which the float pipeline does not map back onto the exact grid.)
      std::unique_ptr<Image> amap_img;
      auto wok = [](int b) { return b == 0 || b == 1 || b == 2 || b == 4 || b == 8; };
      if (c.dither && packed_rgb(f) && wok(abits(f)) && wok(rbits(f)) && wok(gbits(f)) && wok(bbits(f))) {
        pixman_image_set_dither(back->im, (pixman_dither_t)c.dither);
        pixman_image_set_dither_offset(back->im, c.dox, c.doy);
        v.label("dithered_store");
        // a format without alpha channel keeps its alpha in an attached a8 map: opaque content must arrive there as 0xff
        if (!abits(f) && (c.dox & 1)) {
          Bits ab = gen_bits_fixed(fmt_index(PIXMAN_a8), W, H, 3);
          ab.fill = FILL_ZERO;
          amap_img = make_image(ab);
          pixman_image_set_alpha_map(back->im, amap_img->im, 0, 0);
        }
      }
      pixman_image_composite32(PIXMAN_OP_SRC, dst->im, nullptr, back->im, c.dx, 0, 0, 0, 0, 0, W, H);
      if (amap_img) {
        for (int i = 0; i < n && v.ok; i++) {
          uint32_t mid = raw_get(dst->rowp(i / W), 32, i % W + c.dx);
          uint32_t am = raw_get(amap_img->rowp(i / W), 8, i % W);
          if (am != (mid >> 24)) v.fail(fmt("dithered store into %s with an a8 alpha map: alpha 0x%02x arrived in the map as 0x%02x", FORMATS[c.fmt].name, mid >> 24, am));
        }
        pixman_image_set_alpha_map(back->im, nullptr, 0, 0);
        v.label("dithered_store_with_alpha_map");
      }
      uint32_t dm = defined_mask(f);
      for (int i = 0; i < n && v.ok; i++) {
        uint32_t got = raw_get(back->rowp(i / W), BPP, i % W);
        uint32_t mid = raw_get(dst->rowp(i / W), 32, i % W + c.dx);
        uint32_t want_enc = encode8888(f, mid);
        if ((got & dm) != (want_enc & dm)) v.fail(fmt("encode a8r8g8b8 0x%08x -> %s 0x%x, reference (truncation) 0x%x", mid, FORMATS[c.fmt].name, got & dm, want_enc & dm));
        else if ((got & dm) != (vals[i] & dm)) v.fail(fmt("round trip %s 0x%x -> 0x%08x -> 0x%x is not the identity on the defined bits", FORMATS[c.fmt].name, vals[i] & dm, mid, got & dm));
      }
      if (g_acc_bad) v.fail("accessor address outside the pixel storage (encode)");
    }
  } else {
    // wide formats: F -> rgba_float within 2^-20 (sRGB: 1e-5 of the standard curve), F -> rgba_float -> F identity
    Bits dd;
    dd.fmt = fmt_index(PIXMAN_rgba_float);
    dd.w = W;
    dd.h = H;
    dd.fill = FILL_ZERO;
    auto dst = make_image(dd);
    acc_reset({src.get(), dst.get()});
    if ((c.acc & 1) && bpp(src->d.code()) <= 32) pixman_image_set_accessors(src->im, acc_read, acc_write);
    pixman_image_composite32(PIXMAN_OP_SRC, src->im, nullptr, dst->im, 0, 0, 0, 0, 0, 0, W, H);
    long double tol = is_srgb(f) ? 2e-5L : 1.0L / 1048576.0L;
    for (int i = 0; i < n && v.ok; i++) {
      const float *p = (const float *)dst->rowp(i / W) + 4 * (i % W);
      ColF want = decode_real(f, vals[i]);
      long double wv[4] = {want.r, want.g, want.b, want.a};
      for (int k = 0; k < 4; k++)
        if (fabsl((long double)p[k] - wv[k]) > tol) {
          v.fail(fmt("decode %s pixel 0x%x channel %d -> %.9g, reference value/max %.9Lg", FORMATS[c.fmt].name, vals[i], k, (double)p[k], wv[k]));
          break;
        }
    }
    if (v.ok && FORMATS[c.fmt].dst_ok) {
      Bits bd = sd;
      bd.fill = FILL_RANDOM;
      bd.seed = 99;
      auto back = make_image(bd);
      pixman_image_composite32(PIXMAN_OP_SRC, dst->im, nullptr, back->im, 0, 0, 0, 0, 0, 0, W, H);
      uint32_t dm = defined_mask(f);
      for (int i = 0; i < n && v.ok; i++) {
        uint32_t got = raw_get(back->rowp(i / W), BPP, i % W);
        if ((got & dm) != (vals[i] & dm)) v.fail(fmt("round trip %s 0x%x -> rgba_float -> 0x%x is not the identity on the defined bits", FORMATS[c.fmt].name, vals[i] & dm, got & dm));
      }
    }
    if (g_acc_bad) v.fail("accessor address outside the pixel storage (wide)");
  }
  // narrowing from floating point: an increasing ramp from far below 0 to far above 1 (unclamped / HDR samples) must
  // store 0 for every value <= 0, the channel maximum for every value >= 1, and never decrease in between
  if (v.ok && packed_rgb(f) && !is_srgb(f) && FORMATS[c.fmt].dst_ok && bpp(f) <= 32) {
    const int N = 400;
    Bits fb = gen_bits_fixed(fmt_index(PIXMAN_rgba_float), N, 1, 1);
    fb.fill = FILL_ZERO;
    auto fsrc = make_image(fb);
    float *q = (float *)fsrc->rowp(0);
    for (int i = 0; i < N; i++) {
      float val = i < 100 ? -3.0f + 3.0f * i / 100 : i < 300 ? (i - 100) / 200.0f : 1.0f + 2.0f * (i - 300) / 99;
      if (i == 0) val = -1e30f;
      if (i == N - 3) val = 1e5f;
      if (i == N - 2) val = 1.7e7f;
      if (i == N - 1) val = 1e30f;
      for (int k = 0; k < 4; k++) q[4 * i + k] = val;
    }
    // Two routes to the store: SRC (whose float combiner already limits the value to 1 from above), and — for formats
    // with an alpha channel — MULTIPLY onto a cleared destination, whose combiner hands s + s*0 = s to the store as it is,
    // however large (seeded C10s)
    for (int route = 0; route < (abits(f) ? 2 : 1) && v.ok; route++) {
    Bits nb = gen_bits_fixed(c.fmt, N, 1, 2);
    nb.fill = route ? FILL_ZERO : FILL_RANDOM;
    auto ndst = make_image(nb);
    pixman_image_composite32(route ? PIXMAN_OP_MULTIPLY : PIXMAN_OP_SRC, fsrc->im, nullptr, ndst->im, 0, 0, 0, 0, 0, 0, N, 1);
    uint32_t prev[4] = {0, 0, 0, 0};
    int bitsn[4] = {abits(f), rbits(f), gbits(f), bbits(f)};
    for (int i = 0; i < N && v.ok; i++) {
      Ch ch = unpack(f, raw_get(ndst->rowp(0), bpp(f), i));
      uint32_t cv[4] = {ch.a, ch.r, ch.g, ch.b};
      float val = q[4 * i];
      for (int k = 0; k < 4 && v.ok; k++) {
        if (!bitsn[k]) continue;
        uint32_t mx = fieldmask(bitsn[k]);
        if (val <= 0 && cv[k] != 0) v.fail(fmt("narrowing %g to %s (%s): channel %d stores %u, not 0", (double)val, FORMATS[c.fmt].name, route ? "MULTIPLY onto a cleared destination" : "SRC", k, cv[k]));
        else if (val >= 1 && cv[k] != mx) v.fail(fmt("narrowing %g to %s (%s): channel %d stores %u, not the maximum %u", (double)val, FORMATS[c.fmt].name, route ? "MULTIPLY onto a cleared destination" : "SRC", k, cv[k], mx));
        else if (cv[k] < prev[k]) v.fail(fmt("narrowing to %s is not monotone at %g: channel %d goes from %u to %u", FORMATS[c.fmt].name, (double)val, k, prev[k], cv[k]));
        prev[k] = cv[k];
      }
    }
    }
    v.label("float_ramp_narrowed");
  }
  // the direct-fill store: pixman_image_fill_rectangles(SRC, colour) encodes the colour itself when it takes its shortcut;
  // the stored pixel must be the one the general store writes for the same colour (compositing a solid image), for every
  // destination format, not only the plain 8888/565/a8 ones (seeded C10v)
  if (v.ok && FORMATS[c.fmt].dst_ok && bpp(f) <= 32 && !is_indexed(f)) {
    static const uint16_t LV[7] = {0x0000, 0xffff, 0x8000, 0x7fff, 0x1234, 0xfedc, 0x00ff};
    for (int k = 0; k < 12 && v.ok; k++) {
      pixman_color_t col = {LV[(k * 3 + 1) % 7], LV[(k * 5 + 2) % 7], LV[(k + 3) % 7], k < 8 ? (uint16_t)0xffff : LV[(k * 2) % 7]};
      Bits b1 = gen_bits_fixed(c.fmt, 5, 2, 11);
      b1.fill = FILL_RANDOM;
      auto d1 = make_image(b1), d2 = make_image(b1);
      pixman_rectangle16_t rc = {1, 0, 3, 2};
      if (!pixman_image_fill_rectangles(PIXMAN_OP_SRC, d1->im, &col, 1, &rc)) v.fail(fmt("fill_rectangles(SRC) on %s returned FALSE", FORMATS[c.fmt].name));
      pixman_image_t *solid = pixman_image_create_solid_fill(&col);
      pixman_image_composite32(PIXMAN_OP_SRC, solid, nullptr, d2->im, 0, 0, 0, 0, 1, 0, 3, 2);
      pixman_image_unref(solid);
      uint32_t dm = defined_mask(f);
      for (int y = 0; y < 2 && v.ok; y++)
        for (int x = 0; x < 5 && v.ok; x++) {
          uint32_t a = raw_get(d1->rowp(y), bpp(f), x) & dm, b = raw_get(d2->rowp(y), bpp(f), x) & dm;
          if (a != b)
            v.fail(fmt("fill_rectangles(SRC, r%04x g%04x b%04x a%04x) stores 0x%x in %s at (%d,%d), compositing the same solid stores 0x%x", col.red, col.green, col.blue, col.alpha, a, FORMATS[c.fmt].name, x, y, b));
        }
    }
    v.label("direct_fill_store_checked");
  }
  v.nontrivial = true;
  if (c.acc) v.label("accessors");
  return v;
}

// ---------------------------------------------------------------- random: reader agreement, store locality, accessor equivalence
struct CodecCase {
  Bits src, dst;
  int sx = 0, sy = 0, dx = 0, dy = 0, w = 1, h = 1;
  int mode = 0;  // 0 readers agree, 1 store locality + value, 2 accessor equivalence
  int acc = 0;
  int op = 1;
  template <class A> void io(A &a) {
    a.f("src", src);
    a.f("dst", dst);
    a.f("sx", sx);
    a.f("sy", sy);
    a.f("dx", dx);
    a.f("dy", dy);
    a.f("w", w);
    a.f("h", h);
    a.f("mode", mode);
    a.f("acc", acc);
    a.f("op", op);
  }
};
static int gen_dst_fmt() {
  for (;;) {
    int f = (int)R(0, NFORMATS - 1);
    if (FORMATS[f].dst_ok) return f;
  }
}
static CodecCase gen_codec() {
  CodecCase c;
  c.mode = pickw({3, 4, 3});
  c.src = gen_bits((int)R(0, NFORMATS - 1), 110, 4);
  c.dst = gen_bits(gen_dst_fmt(), 110, 4);
  if (c.mode == 0) {
    // narrow sources are read through both pipelines: the 8-bit readers (a8r8g8b8 destination) and the float readers
    // (rgba_float destination forces the wide pipeline)
    bool wide = !is_narrow(c.src.code()) || coin(45);
    c.dst.fmt = fmt_index(wide ? PIXMAN_rgba_float : PIXMAN_a8r8g8b8);
  }
  if (c.mode == 1) c.src.fmt = fmt_index(is_narrow(c.dst.code()) ? PIXMAN_a8r8g8b8 : PIXMAN_rgba_float);
  if (ftype(c.src.code()) == PIXMAN_TYPE_YV12 || ftype(c.src.code()) == PIXMAN_TYPE_YUY2) {
    c.src.w = (c.src.w + 1) & ~1;
    c.src.h = (c.src.h + 1) & ~1;
    c.src.neg = 0;
  }
  c.w = (int)R(1, std::min(c.src.w, c.dst.w));
  c.h = (int)R(1, std::min(c.src.h, c.dst.h));
  c.sx = (int)R(0, c.src.w - c.w);
  c.sy = (int)R(0, c.src.h - c.h);
  c.dx = (int)R(0, c.dst.w - c.w);
  c.dy = (int)R(0, c.dst.h - c.h);
  c.acc = (int)R(1, 3) | (coin(35) ? 4 : 0) | (coin(50) ? 8 : 0) | (coin(30) ? 16 : 0);  // +4: read callback only on the source; +8: translating callbacks
  c.op = coin(70) ? PIXMAN_OP_SRC : (int)pick<int>({PIXMAN_OP_OVER, PIXMAN_OP_ADD, PIXMAN_OP_IN, PIXMAN_OP_XOR});
  return c;
}

// bit-exact comparison of two destination storages; returns first differing byte or -1
static long first_diff(const Image &a, const Image &b) {
  for (size_t i = 0; i < a.buf.size; i++)
    if (a.buf.p[i] != b.buf.p[i]) return (long)i;
  return -1;
}
// bit mask within byte `off` of row y that belongs to pixels [x0,x1) of the image
static uint8_t pixel_bits_in_byte(pixman_format_code_t f, int x0, int x1, int byte_in_row) {
  int BPP = bpp(f);
  uint8_t m = 0;
  for (int bit = 0; bit < 8; bit++) {
    int bitpos = byte_in_row * 8 + bit;
    int px = bitpos / BPP;
    if (px >= x0 && px < x1) m |= (uint8_t)(1 << bit);
  }
  return m;
}

static Verdict run_codec(const CodecCase &c) {
  Verdict v;
  pixman_format_code_t sf = c.src.code(), df = c.dst.code();
  v.label(std::string("mode") + std::to_string(c.mode));
  auto src = make_image(c.src);
  if (!src->im) {
    v.fail("create_bits failed for source");
    return v;
  }
  if (c.mode == 0) {
    // scanline reader (untransformed) vs single-pixel reader (fractional translate + NEAREST samples the same pixels)
    auto d1 = make_image(c.dst);
    auto d2 = make_image(c.dst);
    pixman_image_composite32(PIXMAN_OP_SRC, src->im, nullptr, d1->im, c.sx, c.sy, 0, 0, c.dx, c.dy, c.w, c.h);
    pixman_transform_t t;
    pixman_transform_init_translate(&t, 16384, 16384);  // +0.25 px: floor(x + 0.5 + 0.25 - e) == x
    pixman_image_set_transform(src->im, &t);
    pixman_image_set_filter(src->im, PIXMAN_FILTER_NEAREST, nullptr, 0);
    pixman_image_composite32(PIXMAN_OP_SRC, src->im, nullptr, d2->im, c.sx, c.sy, 0, 0, c.dx, c.dy, c.w, c.h);
    long d = first_diff(*d1, *d2);
    if (d >= 0) v.fail(fmt("scanline and single-pixel readers of %s disagree at destination byte %ld (%02x vs %02x) [%s destination]", FORMATS[c.src.fmt].name, d, d1->buf.p[d], d2->buf.p[d], FORMATS[c.dst.fmt].name));
    // widening to float: value / (2^n - 1) per channel (absent alpha 1, absent colour 0), for packed formats
    if (v.ok && df == PIXMAN_rgba_float && packed_rgb(sf) && !is_srgb(sf)) {
      for (int y = 0; y < c.h && v.ok; y++)
        for (int x = 0; x < c.w && v.ok; x++) {
          ColF want = decode_real(sf, raw_get(src->rowp(c.sy + y), bpp(sf), c.sx + x));
          const float *q = (const float *)d2->rowp(c.dy + y) + 4 * (c.dx + x);
          long double wv[4] = {want.r, want.g, want.b, want.a};
          for (int k = 0; k < 4; k++)
            if (fabsl((long double)q[k] - wv[k]) > 1.0L / 1048576)
              v.fail(fmt("single-pixel float reader of %s: channel %d of pixel (%d,%d) is %.8f, value/max is %.8Lf", FORMATS[c.src.fmt].name, k, x, y, (double)q[k], wv[k]));
        }
    }
    // the two canonical representations agree: what the float pipeline reads is, within one 8-bit step, what the 8-bit
    // pipeline reads (both replicate bits / use the same palette or YUV matrix); this is the only value law that also
    // applies to indexed and YUV sources, whose decode the statement does not spell out
    if (v.ok && df == PIXMAN_rgba_float && is_narrow(sf)) {
      Bits b8 = gen_bits_fixed(fmt_index(PIXMAN_a8r8g8b8), c.w, c.h, 5);
      auto d8 = make_image(b8);
      pixman_image_set_transform(src->im, nullptr);
      pixman_image_composite32(PIXMAN_OP_SRC, src->im, nullptr, d8->im, c.sx, c.sy, 0, 0, 0, 0, c.w, c.h);
      for (int y = 0; y < c.h && v.ok; y++)
        for (int x = 0; x < c.w && v.ok; x++) {
          uint32_t p8 = raw_get(d8->rowp(y), 32, x);
          const float *q = (const float *)d2->rowp(c.dy + y) + 4 * (c.dx + x);
          long double w8[4] = {((p8 >> 16) & 0xff) / 255.0L, ((p8 >> 8) & 0xff) / 255.0L, (p8 & 0xff) / 255.0L, (p8 >> 24) / 255.0L};
          for (int k = 0; k < 4; k++)
            if (fabsl((long double)q[k] - w8[k]) > 1.0L / 255)
              v.fail(fmt("%s read by the float pipeline and by the 8-bit pipeline disagree: channel %d of pixel (%d,%d) is %.6f vs %.6Lf", FORMATS[c.src.fmt].name, k, x, y, (double)q[k], w8[k]));
        }
      v.label("float_vs_8bit_reader");
    }
    v.nontrivial = (c.sx * bpp(sf)) % 32 != 0 || is_indexed(sf) || is_yuv(sf);
    v.label(std::string("src_") + FORMATS[c.src.fmt].name);
    return v;
  }
  if (c.mode == 1) {
    // store: only the addressed pixels change; values are the truncation of the source
    auto dst = make_image(c.dst);
    if (!dst->im) {
      v.fail("create_bits failed for destination");
      return v;
    }
    pixman_image_composite32(PIXMAN_OP_SRC, src->im, nullptr, dst->im, c.sx, c.sy, 0, 0, c.dx, c.dy, c.w, c.h);
    int BPP = bpp(df);
    int st = c.dst.stride();
    for (int y = 0; y < c.dst.h && v.ok; y++) {
      const uint8_t *now = dst->rowp(y), *old = &dst->before[(size_t)(dst->rowp(y) - dst->buf.p)];
      bool in_rows = y >= c.dy && y < c.dy + c.h;
      for (int b = 0; b < st && v.ok; b++) {
        uint8_t allowed = 0;
        if (in_rows) allowed = BPP >= 8 ? (((b * 8) / BPP >= c.dx && (b * 8) / BPP < c.dx + c.w) ? 0xff : 0) : pixel_bits_in_byte(df, c.dx, c.dx + c.w, b);
        if ((now[b] ^ old[b]) & ~allowed)
          v.fail(fmt("store into %s (x=%d w=%d y=%d h=%d) changed bits outside the addressed pixels: row %d byte %d %02x -> %02x (allowed mask %02x)", FORMATS[c.dst.fmt].name, c.dx, c.w, c.dy, c.h,
                     y, b, old[b], now[b], allowed));
      }
    }
    if (v.ok && is_narrow(df) && packed_rgb(df)) {
      uint32_t dm = defined_mask(df);
      for (int y = 0; y < c.h && v.ok; y++)
        for (int x = 0; x < c.w && v.ok; x++) {
          uint32_t s = raw_get(src->rowp(c.sy + y), 32, c.sx + x);
          uint32_t got = raw_get(dst->rowp(c.dy + y), BPP, c.dx + x), want = encode8888(df, s);
          if ((got & dm) != (want & dm)) v.fail(fmt("store a8r8g8b8 0x%08x into %s gave 0x%x, reference (keep most significant bits) 0x%x", s, FORMATS[c.dst.fmt].name, got & dm, want & dm));
        }
    }
    v.nontrivial = (c.dx * BPP) % 32 != 0 || ((c.dx + c.w) * BPP) % 32 != 0;
    v.label(std::string("dst_") + FORMATS[c.dst.fmt].name);
    if (BPP < 8) v.label("subbyte_dest");
    return v;
  }
  // mode 2: accessor images behave identically to direct images
  auto src2 = make_image(c.src);
  auto d1 = make_image(c.dst);
  auto d2 = make_image(c.dst);
  if (!d1->im || !d2->im) {
    v.fail("create_bits failed");
    return v;
  }
  acc_reset({src2.get(), d2.get()});
  // a read-only source needs no write callback ("+4"); callbacks may translate what is stored ("+8": the storage holds every
  // byte XORed with a key and only the callbacks know it), so a reader or writer that bypasses them sees garbage.  Float
  // and YUV formats address memory directly by design (labelled below), so their storage is never scrambled.
  bool scr_src = (c.acc & 8) && (c.acc & 1) && !is_float(sf) && !is_yuv(sf);
  bool scr_dst = (c.acc & 8) && (c.acc & 2) && !is_float(df);
  auto scramble = [](Image &im, uint32_t key) {
    for (size_t i = 0; i < im.buf.size; i++) im.buf.p[i] ^= (uint8_t)key;
  };
  if (c.acc & 16) {
    // the images have been drawn with before the callbacks are installed ("+16"): installing them must take effect on
    // an image whose derived state was already computed (seeded C10a)
    pixman_image_composite32((pixman_op_t)c.op, src->im, nullptr, d1->im, c.sx, c.sy, 0, 0, c.dx, c.dy, c.w, c.h);
    pixman_image_composite32((pixman_op_t)c.op, src2->im, nullptr, d2->im, c.sx, c.sy, 0, 0, c.dx, c.dy, c.w, c.h);
    v.label("callbacks_installed_after_first_use");
  }
  if (scr_src) {
    g_key[0] = 0xa5;
    scramble(*src2, 0xa5);
  }
  if (scr_dst) {
    g_key[1] = 0x3c;
    scramble(*d2, 0x3c);
  }
  // (pixman_image_set_accessors documents that accessors only work for <= 32 bpp: not installed on float images)
  if ((c.acc & 1) && bpp(sf) <= 32) pixman_image_set_accessors(src2->im, acc_read, (c.acc & 4) ? nullptr : acc_write);
  if ((c.acc & 2) && bpp(df) <= 32) pixman_image_set_accessors(d2->im, acc_read, acc_write);
  pixman_image_composite32((pixman_op_t)c.op, src->im, nullptr, d1->im, c.sx, c.sy, 0, 0, c.dx, c.dy, c.w, c.h);
  pixman_image_composite32((pixman_op_t)c.op, src2->im, nullptr, d2->im, c.sx, c.sy, 0, 0, c.dx, c.dy, c.w, c.h);
  if (scr_dst) scramble(*d2, 0x3c);
  if (scr_src) v.label("translating_read_callback");
  if (scr_dst) v.label("translating_write_callback");
  if ((c.acc & 5) == 5) v.label("read_only_source_callback");
  // x8r8g8b8-style padding bits of affected pixels are undefined (DESIGN §0): compare defined bits inside, all bits outside
  int BPP = bpp(df);
  uint32_t dm = is_float(df) ? 0xffffffffu : defined_mask(df);
  for (int y = 0; y < c.dst.h && v.ok; y++) {
    bool in_rows = y >= c.dy && y < c.dy + c.h;
    if (!in_rows || is_float(df)) {
      if (memcmp(d1->rowp(y), d2->rowp(y), (size_t)c.dst.stride()) != 0) v.fail(fmt("accessor and direct destination differ in row %d", y));
      continue;
    }
    for (int x = 0; x < c.dst.w && v.ok; x++) {
      uint32_t a = raw_get(d1->rowp(y), BPP, x), b = raw_get(d2->rowp(y), BPP, x);
      bool inside = x >= c.dx && x < c.dx + c.w;
      uint32_t m = inside ? dm : fieldmask(BPP);
      if ((a & m) != (b & m)) v.fail(fmt("accessor image differs from direct image: %s -> %s op %d at (%d,%d): direct 0x%x accessor 0x%x", FORMATS[c.src.fmt].name, FORMATS[c.dst.fmt].name, c.op, x, y, a, b));
    }
  }
  if (g_acc_bad) v.fail(fmt("accessor called with an address outside the pixel storage (%ld of %ld calls)", g_acc_bad, g_acc_calls));
  // vacuity guard, not part of the property: the float formats address memory directly even with accessors installed
  // (so do the YUV fetchers)
  bool float_only = ((c.acc & 1) ? (is_float(sf) || is_yuv(sf)) : true) && ((c.acc & 2) ? is_float(df) : true);
  if (g_acc_calls == 0 && !float_only) v.fail("accessors were set but never called");
  if (g_acc_calls == 0) v.label("float_or_yuv_format_bypasses_accessors");
  v.nontrivial = g_acc_calls > 0;
  v.label("accessor_equiv");
  return v;
}

static void register_props() {
  add_prop<ExhCase>("exh", gen_exh, run_exh);
  add_prop<CodecCase>("codec", gen_codec, run_codec);
}
VF_MAIN()
