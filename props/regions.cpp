// C05 / C06 / C07: region algebra, canonical form, queries (DESIGN.md §4).
// One history-driven harness over a pool of regions, in the 16- and 32-bit API,
// compared step by step with the independent model of ref_region.hpp.
#include "vf.hpp"
#include "ref_region.hpp"
extern "C" {
#include <pixman.h>
pixman_bool_t pixman_region32_copy_from_region16(pixman_region32_t *dst, pixman_region16_t *src);
pixman_bool_t pixman_region16_copy_from_region32(pixman_region16_t *dst, pixman_region32_t *src);
}
using namespace vf;
using rr::Box;
using rr::Boxes;

// ------------------------------------------------------------------ API traits
#define TRAITS(NAME, P, BITS, MINV, MAXV)                                                                   \
  struct NAME {                                                                                              \
    typedef pixman_region##BITS##_t reg;                                                                     \
    typedef pixman_box##BITS##_t box;                                                                        \
    static constexpr int64_t MIN = MINV, MAX = MAXV;                                                         \
    static void init(reg *r) { P##_init(r); }                                                                \
    static void init_rect(reg *r, int x, int y, unsigned w, unsigned h) { P##_init_rect(r, x, y, w, h); }    \
    static pixman_bool_t init_rects(reg *r, const box *b, int n) { return P##_init_rects(r, b, n); }        \
    static void init_with_extents(reg *r, box *b) { P##_init_with_extents(r, b); }                           \
    static void init_from_image(reg *r, pixman_image_t *i) { P##_init_from_image(r, i); }                    \
    static void fini(reg *r) { P##_fini(r); }                                                                \
    static void translate(reg *r, int x, int y) { P##_translate(r, x, y); }                                  \
    static pixman_bool_t copy(reg *d, reg *s) { return P##_copy(d, s); }                                     \
    static pixman_bool_t intersect(reg *d, reg *a, reg *b) { return P##_intersect(d, a, b); }                \
    static pixman_bool_t union_(reg *d, reg *a, reg *b) { return P##_union(d, a, b); }                       \
    static pixman_bool_t union_rect(reg *d, reg *s, int x, int y, unsigned w, unsigned h) {                  \
      return P##_union_rect(d, s, x, y, w, h);                                                               \
    }                                                                                                        \
    static pixman_bool_t intersect_rect(reg *d, reg *s, int x, int y, unsigned w, unsigned h) {              \
      return P##_intersect_rect(d, s, x, y, w, h);                                                           \
    }                                                                                                        \
    static pixman_bool_t subtract(reg *d, reg *a, reg *b) { return P##_subtract(d, a, b); }                  \
    static pixman_bool_t inverse(reg *d, reg *a, box *b) { return P##_inverse(d, a, b); }                    \
    static pixman_bool_t contains_point(reg *r, int x, int y, box *b) { return P##_contains_point(r, x, y, b); } \
    static pixman_region_overlap_t contains_rectangle(reg *r, box *b) { return P##_contains_rectangle(r, b); } \
    static pixman_bool_t not_empty(reg *r) { return P##_not_empty(r); }                                      \
    static box *extents(reg *r) { return P##_extents(r); }                                                   \
    static int n_rects(reg *r) { return P##_n_rects(r); }                                                    \
    static box *rectangles(reg *r, int *n) { return P##_rectangles(r, n); }                                  \
    static pixman_bool_t equal(reg *a, reg *b) { return P##_equal(a, b); }                                   \
    static pixman_bool_t selfcheck(reg *r) { return P##_selfcheck(r); }                                      \
    static void reset(reg *r, box *b) { P##_reset(r, b); }                                                   \
    static void clear(reg *r) { P##_clear(r); }                                                              \
  };
TRAITS(T16, pixman_region, 16, INT16_MIN, INT16_MAX)
TRAITS(T32, pixman_region32, 32, INT32_MIN, INT32_MAX)

// ------------------------------------------------------------------ case
enum Cmd {
  C_UNION, C_INTERSECT, C_SUBTRACT, C_INVERSE, C_UNION_RECT, C_INTERSECT_RECT, C_COPY, C_RESET, C_CLEAR,
  C_INIT_RECTS, C_INIT_RECT, C_INIT_WITH_EXTENTS, C_CONV, C_CONV_PUBLIC, C_TRANSLATE, C_NCMD
};
static const char *cmd_name[] = {"union", "intersect", "subtract", "inverse", "union_rect", "intersect_rect", "copy", "reset", "clear",
                                 "init_rects", "init_rect", "init_with_extents", "conv", "conv_public", "translate"};

struct Step {
  int op = 0, d = 0, a = 0, b = 0;
  Box arg;      // rectangle argument (x1,y1,x2,y2) or translation in x1,y1
  Boxes rects;  // for init_rects
  template <class A> void io(A &ar) {
    ar.f("op", op);
    ar.f("d", d);
    ar.f("a", a);
    ar.f("b", b);
    ar.f("arg", arg);
    ar.f("rects", rects);
  }
};
struct Query {
  int kind = 0;  // 0 point, 1 rectangle
  int r = 0;
  Box q;
  template <class A> void io(A &ar) {
    ar.f("kind", kind);
    ar.f("r", r);
    ar.f("q", q);
  }
};
struct Hist {
  int bits = 16;
  std::vector<Boxes> init;  // pool, each built with init_rects
  std::vector<Step> steps;
  std::vector<Query> queries;
  template <class A> void io(A &ar) {
    ar.f("bits", bits);
    int n = (int)init.size();
    ar.f("npool", n);
    init.resize(n);
    for (int i = 0; i < n; i++) ar.f("init", init[i]);
    ar.f("steps", steps);
    ar.f("queries", queries);
  }
};

// ------------------------------------------------------------------ generators
struct CoordGen {
  int mode;
  int64_t MIN, MAX;
  int64_t c() const {
    int m = mode;
    if (m == 3) m = pickw({5, 3, 2});
    switch (m) {
    case 0: return R(0, 12);
    case 1: return R(-40, 40);
    default: {
      int k = pickw({3, 3, 2, 1});
      if (k == 0) return MIN + R(0, 3);
      if (k == 1) return MAX - R(0, 3);
      if (k == 2) return R(-3, 3);
      return R(MIN, MAX);
    }
    }
  }
  Box good_box() const {  // non-degenerate
    Box b;
    int64_t a = c(), d = c();
    if (a == d) d = (a < MAX ? a + 1 : a - 1);
    b.x1 = std::min(a, d);
    b.x2 = std::max(a, d);
    a = c();
    d = c();
    if (a == d) d = (a < MAX ? a + 1 : a - 1);
    b.y1 = std::min(a, d);
    b.y2 = std::max(a, d);
    return b;
  }
  Box any_box() const {  // may be degenerate or inverted
    if (coin(80)) return good_box();
    Box b;
    b.x1 = c();
    b.x2 = c();
    b.y1 = c();
    b.y2 = c();
    return b;
  }
  Box rect_arg(bool allow_empty) const {  // x,y,w,h style argument with x+w<=MAX: non-inverted
    Box b = good_box();
    if (allow_empty && coin(12)) {
      if (coin(50)) b.x2 = b.x1;
      else b.y2 = b.y1;
    }
    return b;
  }
  Boxes boxes(int maxn) const {
    const CoordGen self = *this;
    return vec(coin(30) ? std::min(maxn, 3) : maxn, [self] { return self.any_box(); });
  }
};

static Hist gen_hist(int minlen, int maxlen, bool with_translate, int nqueries) {
  Hist h;
  h.bits = coin(50) ? 16 : 32;
  CoordGen g{pickw({5, 2, 2, 3}), h.bits == 16 ? (int64_t)INT16_MIN : (int64_t)INT32_MIN, h.bits == 16 ? (int64_t)INT16_MAX : (int64_t)INT32_MAX};
  int npool = 4;
  for (int i = 0; i < npool; i++) h.init.push_back(g.boxes(i < 2 ? 24 : 6));
  const int bits = h.bits;
  auto gen_step = [=]() {
    Step s;
    // weights: binary ops dominate
    static const int W[C_NCMD] = {10, 10, 10, 5, 4, 4, 3, 1, 1, 3, 1, 1, 2, 1, 0};
    int w[C_NCMD];
    for (int k = 0; k < C_NCMD; k++) w[k] = W[k];
    if (with_translate) w[C_TRANSLATE] = 6;
    if (bits == 32) w[C_CONV_PUBLIC] = 0;  // the public route is the 16-bit entry point
    int tot = 0;
    for (int k = 0; k < C_NCMD; k++) tot += w[k];
    int r = (int)R(0, tot - 1);
    for (s.op = 0; s.op < C_NCMD; s.op++) {
      if (r < w[s.op]) break;
      r -= w[s.op];
    }
    s.d = (int)R(0, npool - 1);
    s.a = (int)R(0, npool - 1);
    s.b = (int)R(0, npool - 1);
    switch (s.op) {
    case C_INVERSE:
    case C_RESET: s.arg = g.good_box(); break;
    case C_UNION_RECT:
    case C_INTERSECT_RECT:
    case C_INIT_RECT:
    case C_INIT_WITH_EXTENTS: s.arg = g.rect_arg(true); break;
    case C_INIT_RECTS: s.rects = g.boxes(12); break;
    case C_TRANSLATE: {
      int k = pickw({4, 3, 3});
      if (k == 0) {
        s.arg.x1 = R(-20, 20);
        s.arg.y1 = R(-20, 20);
      } else if (k == 1) {  // aimed at the limits: computed at run time from the region (arg.x2 = mode)
        s.arg.x2 = R(1, 8);
        s.arg.x1 = R(-3, 3);
        s.arg.y1 = R(-3, 3);
        s.arg.y2 = R(0, 63);  // which box / edge to aim at
      } else {
        s.arg.x1 = coin(50) ? g.c() : 0;
        s.arg.y1 = coin(50) ? g.c() : 0;
      }
      break;
    }
    default: break;
    }
    return s;
  };
  h.steps = vec(maxlen, gen_step);
  while ((int)h.steps.size() < minlen) h.steps.push_back(gen_step());
  for (int i = 0; i < nqueries; i++) {
    Query q;
    q.kind = coin(50);
    q.r = (int)R(0, npool - 1);
    // q.q holds *selectors* resolved against the region at run time: x1 = edge index, x2 = delta ...
    q.q.x1 = R(0, 255);
    q.q.y1 = R(0, 255);
    q.q.x2 = R(0, 255);
    q.q.y2 = R(0, 255);
    h.queries.push_back(q);
  }
  return h;
}

// ------------------------------------------------------------------ oracle
enum Mode { M_OPS, M_CANON, M_QUERY };

template <class T> struct Runner {
  typedef typename T::reg reg;
  typedef typename T::box box;
  std::vector<reg> pool;
  std::vector<Boxes> model;
  Verdict v;
  Mode mode;
  int multi_results = 0;
  bool aliased = false, saw_equal_routes = false, clipped_some = false, multiband_query = false;

  static box mk(const Box &b) {
    box r;
    r.x1 = (decltype(r.x1))b.x1;
    r.y1 = (decltype(r.y1))b.y1;
    r.x2 = (decltype(r.x2))b.x2;
    r.y2 = (decltype(r.y2))b.y2;
    return r;
  }
  static Boxes read(reg *r) {
    int n = 0;
    box *b = T::rectangles(r, &n);
    Boxes o;
    for (int i = 0; i < n; i++) o.push_back({b[i].x1, b[i].y1, b[i].x2, b[i].y2});
    return o;
  }
  static std::string show(const Boxes &b) {
    std::string s = "{";
    for (size_t i = 0; i < b.size() && i < 12; i++) s += fmt("(%lld,%lld)-(%lld,%lld) ", (long long)b[i].x1, (long long)b[i].y1, (long long)b[i].x2, (long long)b[i].y2);
    if (b.size() > 12) s += "...";
    return s + "}";
  }

  void check_region(int i, const char *when) {
    reg *r = &pool[i];
    Boxes got = read(r);
    const Boxes &want = model[i];
    if (mode == M_OPS || mode == M_QUERY) {
      // point-set equality only (C05/C07): canonicalise what the library returned with the model's own builder
      Boxes gc = rr::canon(got);
      if (gc != want) v.fail(fmt("%s: region %d holds the wrong points: got %s want %s", when, i, show(got).c_str(), show(want).c_str()));
      return;
    }
    // C06: canonical form + uniqueness + extents + storage conventions
    std::string d = rr::canonical_defect(got);
    if (!d.empty()) {
      v.fail(fmt("%s: region %d not canonical: %s; rects %s", when, i, d.c_str(), show(got).c_str()));
      return;
    }
    if (got != want) {
      // only a canonical-form matter if the point sets agree (otherwise it is C05's business, still a violation of
      // "same points, same rectangles" only when points are the same)
      if (rr::canon(got) == want) v.fail(fmt("%s: region %d has the right points but a different rectangle list: got %s want %s", when, i, show(got).c_str(), show(want).c_str()));
      else v.fail(fmt("%s: region %d holds the wrong points: got %s want %s", when, i, show(got).c_str(), show(want).c_str()));
      return;
    }
    box *e = T::extents(r);
    if (!want.empty()) {
      Box we = rr::extents(want);
      if (e->x1 != we.x1 || e->y1 != we.y1 || e->x2 != we.x2 || e->y2 != we.y2)
        v.fail(fmt("%s: region %d extents (%d,%d)-(%d,%d) are not the tight bounding box (%lld,%lld)-(%lld,%lld)", when, i, (int)e->x1, (int)e->y1, (int)e->x2, (int)e->y2,
                   (long long)we.x1, (long long)we.y1, (long long)we.x2, (long long)we.y2));
      if (!T::not_empty(r)) v.fail(fmt("%s: region %d non-empty but not_empty()=FALSE", when, i));
    } else {
      if (T::not_empty(r)) v.fail(fmt("%s: region %d is empty but not_empty()=TRUE", when, i));
      if (e->x2 > e->x1 && e->y2 > e->y1) v.fail(fmt("%s: empty region %d has non-empty extents", when, i));
    }
    if ((int)want.size() != T::n_rects(r)) v.fail(fmt("%s: region %d n_rects=%d want %d", when, i, T::n_rects(r), (int)want.size()));
    if (want.size() == 1 && r->data != nullptr) v.fail(fmt("%s: region %d single rectangle stored with a list", when, i));
    if (!T::selfcheck(r)) v.fail(fmt("%s: region %d selfcheck()=FALSE", when, i));
  }

  void check_equal_pairs(const char *when) {
    for (size_t i = 0; i < pool.size(); i++)
      for (size_t j = 0; j < pool.size(); j++) {
        bool want = model[i] == model[j];
        bool got = T::equal(&pool[i], &pool[j]);
        if (want && i != j && !model[i].empty()) saw_equal_routes = true;
        if (got != want) {
          v.fail(fmt("%s: equal(r%zu,r%zu)=%d but point sets %s (%s vs %s)", when, i, j, (int)got, want ? "are equal" : "differ", show(model[i]).c_str(), show(model[j]).c_str()));
          if (want && model[i].empty()) v.known = "S4";
          return;
        }
      }
  }

  static bool in_range(const Boxes &m) {
    for (auto &b : m)
      if (b.x1 < INT16_MIN || b.y1 < INT16_MIN || b.x2 > INT16_MAX || b.y2 > INT16_MAX) return false;
    return true;
  }

  void step(const Step &s, int idx) {
    reg *d = &pool[s.d], *a = &pool[s.a], *b = &pool[s.b];
    Boxes &md = model[s.d];
    const Boxes ma = model[s.a], mb = model[s.b];
    pixman_bool_t ret = 1;
    std::string when = fmt("step %d %s(d=%d,a=%d,b=%d)", idx, cmd_name[s.op], s.d, s.a, s.b);
    Boxes argb{s.arg};
    unsigned w = (unsigned)(s.arg.x2 - s.arg.x1), hgt = (unsigned)(s.arg.y2 - s.arg.y1);
    switch (s.op) {
    case C_UNION:
      ret = T::union_(d, a, b);
      md = rr::combine(ma, mb, rr::UNION);
      aliased |= (s.d == s.a || s.d == s.b || s.a == s.b);
      break;
    case C_INTERSECT:
      ret = T::intersect(d, a, b);
      md = rr::combine(ma, mb, rr::INTER);
      aliased |= (s.d == s.a || s.d == s.b || s.a == s.b);
      break;
    case C_SUBTRACT:
      ret = T::subtract(d, a, b);
      md = rr::combine(ma, mb, rr::SUB);
      aliased |= (s.d == s.a || s.d == s.b || s.a == s.b);
      break;
    case C_INVERSE: {
      box bx = mk(s.arg);
      ret = T::inverse(d, a, &bx);
      md = rr::combine(argb, ma, rr::SUB);
      aliased |= s.d == s.a;
      break;
    }
    case C_UNION_RECT:
      ret = T::union_rect(d, a, (int)s.arg.x1, (int)s.arg.y1, w, hgt);
      md = rr::combine(ma, argb, rr::UNION);
      aliased |= s.d == s.a;
      break;
    case C_INTERSECT_RECT:
      ret = T::intersect_rect(d, a, (int)s.arg.x1, (int)s.arg.y1, w, hgt);
      md = rr::combine(ma, argb, rr::INTER);
      aliased |= s.d == s.a;
      break;
    case C_COPY:
      ret = T::copy(d, a);
      md = ma;
      aliased |= s.d == s.a;
      break;
    case C_RESET: {
      box bx = mk(s.arg);
      T::reset(d, &bx);
      md = rr::canon(argb);
      break;
    }
    case C_CLEAR:
      T::clear(d);
      md.clear();
      break;
    case C_INIT_RECTS: {
      std::vector<box> bs;
      for (auto &x : s.rects) bs.push_back(mk(x));
      T::fini(d);
      ret = T::init_rects(d, bs.data(), (int)bs.size());
      md = rr::canon(s.rects);
      break;
    }
    case C_INIT_RECT:
      T::fini(d);
      T::init_rect(d, (int)s.arg.x1, (int)s.arg.y1, w, hgt);
      md = rr::canon(argb);
      break;
    case C_INIT_WITH_EXTENTS: {
      box bx = mk(s.arg);
      T::fini(d);
      T::init_with_extents(d, &bx);
      md = rr::canon(argb);
      break;
    }
    case C_CONV: {
      // 16 <-> 32 conversion and back (coordinates must fit 16 bits: the statement's "representable range")
      if (!in_range(ma)) {
        v.label("conv_skipped_out_of_range");
        return;
      }
      if (T::MAX == INT16_MAX) {
        pixman_region32_t t;
        pixman_region32_init(&t);
        ret = pixman_region32_copy_from_region16(&t, (pixman_region16_t *)a);
        Boxes mid;
        int n = 0;
        pixman_box32_t *bb = pixman_region32_rectangles(&t, &n);
        for (int i = 0; i < n; i++) mid.push_back({bb[i].x1, bb[i].y1, bb[i].x2, bb[i].y2});
        if (rr::canon(mid) != ma) v.fail(when + ": 16->32 conversion changed the point set");
        if (ret) ret = pixman_region16_copy_from_region32((pixman_region16_t *)d, &t);
        pixman_region32_fini(&t);
      } else {
        pixman_region16_t t;
        pixman_region_init(&t);
        ret = pixman_region16_copy_from_region32(&t, (pixman_region32_t *)a);
        Boxes mid;
        int n = 0;
        pixman_box16_t *bb = pixman_region_rectangles(&t, &n);
        for (int i = 0; i < n; i++) mid.push_back({bb[i].x1, bb[i].y1, bb[i].x2, bb[i].y2});
        if (rr::canon(mid) != ma) v.fail(when + ": 32->16 conversion changed the point set");
        if (ret) ret = pixman_region32_copy_from_region16((pixman_region32_t *)d, &t);
        pixman_region_fini(&t);
      }
      md = ma;
      break;
    }
    case C_CONV_PUBLIC: {
      // public route: 16-bit clip on an image (stored as 32-bit), read back by pixman_compute_composite_region
      // (32 -> 16).  The image is W x H at the origin, so the model result is a ∩ [0,W)x[0,H).
      if (T::MAX != INT16_MAX) return;
      int W = 300, H = 300;
      static uint32_t dummy[4];
      pixman_image_t *dst = pixman_image_create_bits(PIXMAN_a8, W, H, nullptr, 0);
      pixman_image_t *src = pixman_image_create_bits(PIXMAN_a8r8g8b8, 1, 1, dummy, 4);
      pixman_image_set_repeat(src, PIXMAN_REPEAT_NORMAL);
      if (!dst || !src) return;
      pixman_image_set_clip_region(dst, (pixman_region16_t *)a);
      pixman_region16_t out;
      pixman_region_init(&out);
      pixman_bool_t r2 = pixman_compute_composite_region(&out, src, nullptr, dst, 0, 0, 0, 0, 0, 0, W, H);
      Boxes want = rr::combine(ma, Boxes{{0, 0, W, H}}, rr::INTER);
      if ((bool)r2 != !want.empty()) v.fail(fmt("%s: compute_composite_region returned %d, intersection %s", when.c_str(), (int)r2, want.empty() ? "empty" : "non-empty"));
      if (r2) {
        ret = pixman_region_copy((pixman_region16_t *)d, &out);
        md = want;
      }
      pixman_region_fini(&out);
      pixman_image_unref(dst);
      pixman_image_unref(src);
      break;
    }
    case C_TRANSLATE: {
      int64_t dx = s.arg.x1, dy = s.arg.y1;
      if (s.arg.x2 != 0 && !md.empty()) {
        // aim: make edge of box k land at the limit +- delta
        const Box &k = md[(size_t)s.arg.y2 % md.size()];
        switch ((int)s.arg.x2) {
        case 1: dx = T::MAX - k.x2 + s.arg.x1; dy = 0; break;
        case 2: dx = T::MIN - k.x1 + s.arg.x1; dy = 0; break;
        case 3: dy = T::MAX - k.y2 + s.arg.y1; dx = 0; break;
        case 4: dy = T::MIN - k.y1 + s.arg.y1; dx = 0; break;
        case 5: dx = T::MAX - k.x1 + s.arg.x1; dy = 0; break;  // box leaves entirely / keeps a sliver
        case 6: dx = T::MIN - k.x2 + s.arg.x1; dy = 0; break;
        case 7: dy = T::MAX - k.y1 + s.arg.y1; dx = 0; break;
        default: dy = T::MIN - k.y2 + s.arg.y1; dx = 0; break;
        }
      }
      // the int parameters must hold dx,dy
      if (dx < INT32_MIN || dx > INT32_MAX || dy < INT32_MIN || dy > INT32_MAX) return;
      Boxes before = md;
      T::translate(d, (int)dx, (int)dy);
      md = rr::translate_clip(before, dx, dy, T::MIN, T::MAX);
      size_t kept = 0;
      for (auto &bx : before) {
        Boxes one{bx};
        if (!rr::translate_clip(one, dx, dy, T::MIN, T::MAX).empty()) kept++;
      }
      bool any_clip = false;
      for (auto &bx : before)
        if (bx.x1 + dx < T::MIN || bx.y1 + dy < T::MIN || bx.x2 + dx > T::MAX || bx.y2 + dy > T::MAX) any_clip = true;
      if (any_clip) v.label("translate_overflow");
      if (any_clip && kept > 0 && before.size() > 1) clipped_some = true;
      break;
    }
    }
    if (!ret) v.fail(when + ": returned FALSE without an allocation failure");
    if (md.size() >= 2) multi_results++;
    v.label(std::string("op_") + cmd_name[s.op]);
    // every region of the pool must be what the model says (operands unchanged, result right)
    for (size_t i = 0; i < pool.size() && v.ok; i++) check_region((int)i, when.c_str());
    if (mode == M_CANON && v.ok) check_equal_pairs(when.c_str());
  }

  // ------------------------------------------------ queries (C07)
  void query(const Query &q, int idx) {
    reg *r = &pool[q.r];
    const Boxes &m = model[q.r];
    // candidate coordinates: region edges +-1, limits
    std::vector<int64_t> xs{T::MIN, T::MAX, T::MAX - 1, 0}, ys{T::MIN, T::MAX, T::MAX - 1, 0};
    for (auto &b : m) {
      for (int64_t d = -1; d <= 1; d++) {
        xs.push_back(b.x1 + d);
        xs.push_back(b.x2 + d);
        ys.push_back(b.y1 + d);
        ys.push_back(b.y2 + d);
      }
    }
    auto clampv = [&](int64_t x) { return std::max<int64_t>(T::MIN, std::min<int64_t>(T::MAX, x)); };
    int64_t x1 = clampv(xs[(size_t)q.q.x1 % xs.size()]), y1 = clampv(ys[(size_t)q.q.y1 % ys.size()]);
    int64_t x2 = clampv(xs[(size_t)q.q.x2 % xs.size()]), y2 = clampv(ys[(size_t)q.q.y2 % ys.size()]);
    std::string when = fmt("query %d on r%d", idx, q.r);
    if (q.kind == 0) {
      // contains_point takes plain ints also for 16-bit regions: in a third of the point queries the coordinates lie
      // outside the region's coordinate type, in particular 65536 away from an edge (must not alias into the region)
      if ((q.q.x2 % 3) == 0) {
        int64_t sh = (q.q.y2 & 1) ? 65536 : -65536;
        if (q.q.y2 & 2) x1 = xs[(size_t)q.q.x1 % xs.size()] + sh;
        if (q.q.y2 & 4) y1 = ys[(size_t)q.q.y1 % ys.size()] + sh;
        if (!(q.q.y2 & 6)) x1 = (q.q.y2 & 1) ? (int64_t)INT32_MAX - (q.q.x1 % 3) : (int64_t)INT32_MIN + (q.q.x1 % 3);
        x1 = std::max<int64_t>(INT32_MIN, std::min<int64_t>(INT32_MAX, x1));
        y1 = std::max<int64_t>(INT32_MIN, std::min<int64_t>(INT32_MAX, y1));
      }
      box out;
      memset(&out, 0x5a, sizeof out);
      bool want = rr::contains(m, x1, y1);
      bool got = T::contains_point(r, (int)x1, (int)y1, &out);
      bool got2 = T::contains_point(r, (int)x1, (int)y1, nullptr);
      if (got != want || got2 != want) {
        v.fail(fmt("%s: contains_point(%lld,%lld)=%d/%d, model %d", when.c_str(), (long long)x1, (long long)y1, (int)got, (int)got2, (int)want));
        return;
      }
      if (got) {
        Box ob{out.x1, out.y1, out.x2, out.y2};
        bool member = false;
        for (auto &b : read(r)) member |= (b == ob);
        if (!member || !(x1 >= ob.x1 && x1 < ob.x2 && y1 >= ob.y1 && y1 < ob.y2))
          v.fail(fmt("%s: contains_point(%lld,%lld) returned box (%lld,%lld)-(%lld,%lld) which is not the member rectangle holding the point", when.c_str(), (long long)x1,
                     (long long)y1, (long long)ob.x1, (long long)ob.y1, (long long)ob.x2, (long long)ob.y2));
      }
      v.label(want ? "point_in" : "point_out");
    } else {
      if (x1 > x2) std::swap(x1, x2);
      if (y1 > y2) std::swap(y1, y2);
      if (x1 == x2 || y1 == y2) return;  // empty query rectangle: both inside and disjoint, undefined
      Box qb{x1, y1, x2, y2};
      Boxes inter = rr::combine(m, Boxes{qb}, rr::INTER);
      pixman_region_overlap_t want;
      if (inter.empty()) want = PIXMAN_REGION_OUT;
      else if (inter == rr::canon(Boxes{qb})) want = PIXMAN_REGION_IN;
      else want = PIXMAN_REGION_PART;
      box bq = mk(qb);
      pixman_region_overlap_t got = T::contains_rectangle(r, &bq);
      if (got != want)
        v.fail(fmt("%s: contains_rectangle((%lld,%lld)-(%lld,%lld))=%d, model %d; region %s", when.c_str(), (long long)x1, (long long)y1, (long long)x2, (long long)y2,
                   (int)got, (int)want, show(m).c_str()));
      int touched = 0;
      for (auto &b : m)
        if (b.x1 < x2 && b.x2 > x1 && b.y1 < y2 && b.y2 > y1) touched++;
      if (touched >= 2) multiband_query = true;
      v.label(want == PIXMAN_REGION_IN ? "rect_in" : want == PIXMAN_REGION_OUT ? "rect_out" : "rect_part");
    }
  }

  Verdict run(const Hist &h, Mode m) {
    mode = m;
    pool.resize(h.init.size());
    model.resize(h.init.size());
    for (size_t i = 0; i < h.init.size(); i++) {
      std::vector<box> bs;
      for (auto &x : h.init[i]) bs.push_back(mk(x));
      if (!T::init_rects(&pool[i], bs.data(), (int)bs.size())) v.fail("init_rects returned FALSE");
      model[i] = rr::canon(h.init[i]);
      check_region((int)i, "initial init_rects");
    }
    if (m == M_CANON && v.ok) check_equal_pairs("initial");
    for (size_t i = 0; i < h.steps.size() && v.ok; i++) step(h.steps[i], (int)i);
    if (m == M_QUERY) {
      for (size_t i = 0; i < pool.size() && v.ok; i++) {
        // not_empty / n_rects / extents describe the set
        reg *r = &pool[i];
        if ((bool)T::not_empty(r) != !model[i].empty()) v.fail(fmt("final: not_empty(r%zu)=%d but model has %zu rects", i, (int)T::not_empty(r), model[i].size()));
        if (!model[i].empty()) {
          Box we = rr::extents(model[i]);
          box *e = T::extents(r);
          if (e->x1 != we.x1 || e->y1 != we.y1 || e->x2 != we.x2 || e->y2 != we.y2) v.fail(fmt("final: extents(r%zu) not the bounding box of the set", i));
        }
        Boxes got = read(r);
        if (rr::canonical_defect(got).empty() && T::n_rects(r) != (int)model[i].size()) v.fail(fmt("final: n_rects(r%zu)=%d model %zu", i, T::n_rects(r), model[i].size()));
      }
      for (size_t i = 0; i < h.queries.size() && v.ok; i++) query(h.queries[i], (int)i);
    }
    for (auto &r : pool) T::fini(&r);
    // non-trivial rules (DESIGN §4)
    int multi_inputs = 0;
    for (auto &mr : model) multi_inputs += mr.size() >= 2;
    if (m == M_OPS) v.nontrivial = (multi_results >= 1) || aliased;
    else if (m == M_CANON) v.nontrivial = multi_results >= 3 && saw_equal_routes;
    else v.nontrivial = (multiband_query || clipped_some);
    if (aliased) v.label("aliased");
    if (saw_equal_routes) v.label("equal_sets_two_routes");
    if (clipped_some) v.label("translate_clips_some_boxes");
    v.label(h.bits == 16 ? "api16" : "api32");
    return v;
  }
};

static Verdict run_hist(const Hist &h, Mode m) {
  if (h.bits == 16) {
    Runner<T16> r;
    return r.run(h, m);
  }
  Runner<T32> r;
  return r.run(h, m);
}

// C06 generator: makes sure equal point sets are reached along different routes by appending an algebraic identity
static Hist gen_canon() {
  Hist h = gen_hist(3, 40, true, 0);
  // identity: r3 := (r0 ∪ r1) − r2 ; r2' := ... we use pool slots 2,3 as scratch:
  //   r3 = (r0 − r2) ∪ (r1 − r2)   vs   r2 = (r0 ∪ r1) − r2
  int which = pickw({1, 1, 1});
  auto S = [&](int op, int d, int a, int b) {
    Step s;
    s.op = op;
    s.d = d;
    s.a = a;
    s.b = b;
    h.steps.push_back(s);
  };
  if (which == 0) {
    S(C_SUBTRACT, 3, 0, 2);
    S(C_SUBTRACT, 2, 1, 2);  // r2 = r1 - r2   (aliased)   -- different identity: (r0−r2)∪(r1−r2)
    // rebuild: r3 = r3 ∪ r2 ; and r2 = ... needs original r2: do it the unaliased way instead
    h.steps.pop_back();
    S(C_UNION, 1, 0, 1);      // r1 = r0 ∪ r1
    S(C_SUBTRACT, 1, 1, 2);   // r1 = (r0 ∪ r1) − r2
    S(C_UNION, 3, 3, 1);      // r3 = (r0−r2) ∪ r1 = r1 (superset)  → r3 == r1
  } else if (which == 1) {
    S(C_SUBTRACT, 3, 0, 1);   // r3 = r0 − r1
    S(C_SUBTRACT, 3, 0, 3);   // r3 = r0 − (r0 − r1) = r0 ∩ r1
    S(C_INTERSECT, 2, 1, 0);  // r2 = r1 ∩ r0
  } else {
    S(C_COPY, 3, 0, 0);
    S(C_UNION, 3, 3, 3);      // r3 = r0
    S(C_INTERSECT, 2, 0, 0);  // r2 = r0
  }
  return h;
}

// ------------------------------------------------------------------ init_from_image (C07)
struct Bitmap {
  int bits = 16, w = 1, h = 1, pad = 0;
  int mode = 0;
  uint64_t seed = 0;
  template <class A> void io(A &a) {
    a.f("bits", bits);
    a.f("w", w);
    a.f("h", h);
    a.f("pad", pad);
    a.f("mode", mode);
    a.f("seed", seed);
  }
};
static Bitmap gen_bitmap() {
  Bitmap b;
  b.bits = coin(50) ? 16 : 32;
  b.w = coin(40) ? pick<int>({1, 31, 32, 33, 63, 64, 65, 95, 96, 97}) : (int)R(1, 200);
  b.h = (int)R(1, 12);
  b.pad = (int)R(0, 2);
  b.mode = pickw({4, 1, 1, 4, 2});
  b.seed = seed64();
  return b;
}
static Verdict run_bitmap(const Bitmap &c) {
  Verdict v;
  int stride_words = (c.w + 31) / 32 + c.pad;
  std::vector<uint32_t> bits((size_t)stride_words * c.h, 0);
  Mix mx(c.seed);
  // independent a1 reader: on little-endian hosts bit i of a word is pixel i (LSB first)
  auto setbit = [&](int x, int y, bool on) {
    uint32_t &wd = bits[(size_t)y * stride_words + x / 32];
    if (on) wd |= 1u << (x & 31);
    else wd &= ~(1u << (x & 31));
  };
  int runs_max = 0, rows_differ = 0;
  std::vector<std::vector<char>> px(c.h, std::vector<char>(c.w, 0));
  for (int y = 0; y < c.h; y++) {
    bool copy_prev = y > 0 && (c.mode == 3 || c.mode == 4) && mx.range(0, 2) == 0;
    for (int x = 0; x < c.w; x++) {
      bool on;
      if (copy_prev) on = px[y - 1][x];
      else if (c.mode == 0) on = mx.range(0, 1);
      else if (c.mode == 1) on = true;
      else if (c.mode == 2) on = false;
      else if (c.mode == 3) on = (x > 0 && mx.range(0, 5) != 0) ? px[y][x - 1] : mx.range(0, 1);  // runs
      else on = ((x / 32) & 1) ? true : mx.range(0, 7) != 0;                                       // word-spanning runs
      px[y][x] = on;
      setbit(x, y, on);
    }
    int runs = 0;
    for (int x = 0; x < c.w; x++)
      if (px[y][x] && (x == 0 || !px[y][x - 1])) runs++;
    runs_max = std::max(runs_max, runs);
    if (y > 0 && px[y] != px[y - 1]) rows_differ++;
  }
  // padding bits beyond width are set to garbage: they are not pixels
  for (int y = 0; y < c.h; y++)
    for (int x = c.w; x < stride_words * 32; x++) setbit(x, y, mx.range(0, 1));
  Boxes want_in;
  for (int y = 0; y < c.h; y++)
    for (int x = 0; x < c.w; x++)
      if (px[y][x]) want_in.push_back({x, y, x + 1, y + 1});
  Boxes want = rr::canon(want_in);
  pixman_image_t *img = pixman_image_create_bits(PIXMAN_a1, c.w, c.h, bits.data(), stride_words * 4);
  if (!img) {
    v.fail("create_bits failed");
    return v;
  }
  Boxes got;
  bool selfok = true, ne = false;
  int nr = 0;
  if (c.bits == 16) {
    pixman_region16_t r;
    pixman_region_init_from_image(&r, img);
    int n;
    pixman_box16_t *b = pixman_region_rectangles(&r, &n);
    for (int i = 0; i < n; i++) got.push_back({b[i].x1, b[i].y1, b[i].x2, b[i].y2});
    selfok = pixman_region_selfcheck(&r);
    ne = pixman_region_not_empty(&r);
    nr = pixman_region_n_rects(&r);
    pixman_region_fini(&r);
  } else {
    pixman_region32_t r;
    pixman_region32_init_from_image(&r, img);
    int n;
    pixman_box32_t *b = pixman_region32_rectangles(&r, &n);
    for (int i = 0; i < n; i++) got.push_back({b[i].x1, b[i].y1, b[i].x2, b[i].y2});
    selfok = pixman_region32_selfcheck(&r);
    ne = pixman_region32_not_empty(&r);
    nr = pixman_region32_n_rects(&r);
    pixman_region32_fini(&r);
  }
  pixman_image_unref(img);
  if (rr::canon(got) != want) v.fail(fmt("init_from_image: point set differs from the set bits (w=%d h=%d): got %zu rects want %zu", c.w, c.h, got.size(), want.size()));
  else if (got != want) v.fail(fmt("init_from_image: right points but not canonical (%s)", rr::canonical_defect(got).c_str()));
  if (!selfok) v.fail("init_from_image: selfcheck FALSE");
  if (ne != !want.empty()) v.fail("init_from_image: not_empty wrong");
  v.nontrivial = runs_max >= 2 && rows_differ >= 1;
  if (c.w > 32) v.label("wider_than_word");
  if (runs_max >= 2) v.label("multi_run_row");
  return v;
}

static void register_props() {
  add_prop<Hist>("ops", [] { return gen_hist(1, 4, false, 0); }, [](const Hist &h) { return run_hist(h, M_OPS); });
  add_prop<Hist>("canon", [] { return gen_canon(); }, [](const Hist &h) { return run_hist(h, M_CANON); });
  add_prop<Hist>("query", [] { return gen_hist(0, 6, true, 12); }, [](const Hist &h) { return run_hist(h, M_QUERY); });
  add_prop<Bitmap>("bitmap", gen_bitmap, run_bitmap);
}
VF_MAIN()
