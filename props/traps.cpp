// C12: trapezoid coverage — exact sample-count model and the metamorphic laws of the statement (DESIGN.md §4 C12).
#include "img.hpp"
using namespace vf;
using namespace img;
typedef __int128 i128;

struct Pt {
  int64_t x = 0, y = 0;
  template <class A> void io(A &a) {
    a.f("x", x);
    a.f("y", y);
  }
};
struct Trap {
  int64_t top = 0, bottom = 0;
  Pt l1, l2, r1, r2;
  template <class A> void io(A &a) {
    a.f("top", top);
    a.f("bottom", bottom);
    a.f("l1", l1);
    a.f("l2", l2);
    a.f("r1", r1);
    a.f("r2", r2);
  }
};
struct TCase {
  int fmt = 2;  // 0 a1, 1 a4, 2 a8
  int w = 8, h = 8, pad = 0;
  int xoff = 0, yoff = 0;
  std::vector<Trap> traps;
  int law = 0;
  int64_t p1 = 0, p2 = 0, p3 = 0;  // law parameters
  uint64_t seed = 0;               // initial destination content
  int prefill = 0;
  int fence = 0;  // 0 malloc, 1 end of storage against a PROT_NONE page, 2 start against one
  template <class A> void io(A &a) {
    a.f("fmt", fmt);
    a.f("w", w);
    a.f("h", h);
    a.f("pad", pad);
    a.f("xoff", xoff);
    a.f("yoff", yoff);
    a.f("traps", traps);
    a.f("law", law);
    a.f("p1", p1);
    a.f("p2", p2);
    a.f("p3", p3);
    a.f("seed", seed);
    a.f("prefill", prefill);
    a.f("fence", fence);
  }
};
enum Law { L_MODEL, L_HSPLIT, L_ESPLIT, L_OFFSET, L_TRIANGLE, L_COMPOSITE, L_ADDTRAPS, L_N };
static const char *law_name[] = {"model", "hsplit", "esplit", "offset", "triangle", "composite", "addtraps"};
static const pixman_format_code_t AF[3] = {PIXMAN_a1, PIXMAN_a4, PIXMAN_a8};

// ---------------------------------------------------------------- sample grid (Render's: N_X x N_Y points per pixel)
struct Grid {
  int n;                 // depth
  int nx, ny;            // samples per pixel
  int64_t x0, xs, y0, ys;  // first position and spacing (16.16 units)
  int maxv;
};
static Grid grid_for(int depth) {
  Grid g;
  g.n = depth;
  if (depth == 1) {
    g.nx = g.ny = 1;
    g.x0 = g.y0 = 32768;
    g.xs = g.ys = 65536;
    g.maxv = 1;
    return g;
  }
  g.ny = (1 << (depth / 2)) - 1;
  g.nx = (1 << (depth / 2)) + 1;
  g.ys = 65536 / g.ny;
  g.xs = 65536 / g.nx;
  g.y0 = (65536 - (g.ny - 1) * g.ys) / 2;
  g.x0 = (65536 - (g.nx - 1) * g.xs) / 2;
  g.maxv = (1 << depth) - 1;
  return g;
}

// ---------------------------------------------------------------- generator
static int64_t gen_coord(int extent_px, const Grid &g, bool is_y) {
  // pixel part
  int64_t px = coin(85) ? R(-2, extent_px + 2) : (coin(80) ? R(-60, extent_px + 60) : R(-3000, 3000));
  int64_t fr;
  switch (pickw({4, 2, 3, 2})) {
  case 0: fr = R(0, 65535); break;
  case 1: fr = pick<int64_t>({0, 1, 32768, 65535, 32767, 32769}); break;
  case 2: {  // on / next to a sample position
    int k = (int)R(0, (is_y ? g.ny : g.nx) - 1);
    fr = (is_y ? g.y0 + k * g.ys : g.x0 + k * g.xs) + R(-2, 2);
    break;
  }
  default: fr = R(0, 15) * 4096; break;
  }
  return px * 65536 + std::max<int64_t>(0, std::min<int64_t>(65535, fr));
}
static Trap gen_trap(int w, int h, const Grid &g, bool spanning) {
  Trap t;
  int64_t a = gen_coord(h, g, true), b = gen_coord(h, g, true);
  if (a == b) b = a + R(1, 3 * 65536);
  t.top = std::min(a, b);
  t.bottom = std::max(a, b);
  auto line = [&](Pt &p1, Pt &p2, int64_t xa, int64_t xb) {
    // the line's defining points lie at or beyond top/bottom (spanning) or anywhere (extrapolated edges)
    int64_t ya, yb;
    if (spanning) {
      ya = t.top - (coin(50) ? 0 : R(0, 40 * 65536));
      yb = t.bottom + (coin(50) ? 0 : R(0, 40 * 65536));
    } else {
      ya = t.top + R(-5 * 65536, 5 * 65536);
      yb = t.bottom + R(-5 * 65536, 5 * 65536);
      if (ya == yb) yb = ya + 65536;
    }
    p1 = Pt{xa, ya};
    p2 = Pt{xb, yb};
    if (coin(30)) std::swap(p1, p2);
  };
  int64_t xl1 = gen_coord(w, g, false), xl2 = coin(25) ? xl1 : gen_coord(w, g, false);
  int64_t xr1 = gen_coord(w, g, false), xr2 = coin(25) ? xr1 : gen_coord(w, g, false);
  if (coin(85)) {  // make it mostly a proper trapezoid (left of right)
    if (xl1 > xr1) std::swap(xl1, xr1);
    if (xl2 > xr2) std::swap(xl2, xr2);
  }
  line(t.l1, t.l2, xl1, xl2);
  line(t.r1, t.r2, xr1, xr2);
  if (coin(6)) {
    // lines given by two points tens of thousands of pixels above the image, and a bottom far below it: the lines must be
    // extended over more than 32768 pixels, yet pass through the image with a gentle slope
    t.bottom = t.top + R(4000, 30000) * 65536 + R(0, 65535);
    for (int k = 0; k < 2; k++) {
      Pt &p1 = k ? t.r1 : t.l1, &p2 = k ? t.r2 : t.l2;
      int64_t x_at_top = k ? std::max(xl1, xr1) : std::min(xl1, xr1);
      int64_t ya = t.top - R(8000, 30000) * 65536, yb = ya + R(100, 3000) * 65536;
      int64_t slope = R(-1500, 1500);  // 1/65536 pixels per pixel
      p1 = Pt{x_at_top - slope * ((t.top - ya) >> 16), ya};
      p2 = Pt{p1.x + slope * ((yb - ya) >> 16), yb};
    }
  }
  return t;
}
static TCase gen_case() {
  TCase c;
  c.fmt = pickw({2, 2, 5});
  Grid g = grid_for(c.fmt == 0 ? 1 : c.fmt == 1 ? 4 : 8);
  c.w = coin(20) ? pick<int>({1, 31, 32, 33, 64}) : (int)R(1, 40);
  c.h = (int)R(1, 24);
  c.pad = pickw({4, 1});
  c.law = pickw({8, 3, 3, 3, 3, 4, 2});
  c.seed = seed64();
  c.prefill = pickw({5, 3, 1});  // zeros, random, full
  c.fence = pickw({3, 4, 2});
  int nt = c.law == L_MODEL ? (int)R(1, 3) : 1;
  bool spanning = coin(80);
  for (int i = 0; i < nt; i++) c.traps.push_back(gen_trap(c.w, c.h, g, spanning));
  if (coin(c.law == L_COMPOSITE ? 10 : 3)) {
    // degenerate shapes: zero or negative height, or an edge "line" through two points of equal y. They draw nothing —
    // which under composite_trapezoids still means compositing an all-zero mask (seeded C12r)
    Trap &t = c.traps[0];
    switch (pickw({2, 1, 2})) {
    case 0: t.bottom = t.top; break;
    case 1: std::swap(t.top, t.bottom); break;
    default:
      if (coin(50)) t.l2.y = t.l1.y;
      else t.r2.y = t.r1.y;
      break;
    }
  }
  c.xoff = coin(70) ? 0 : (int)R(-40, 40);
  c.yoff = coin(70) ? 0 : (int)R(-40, 40);
  if (c.xoff || c.yoff) {
    // keep the shape near the image: shift the geometry the other way
    for (auto &t : c.traps) {
      t.top -= (int64_t)c.yoff * 65536;
      t.bottom -= (int64_t)c.yoff * 65536;
      for (Pt *p : {&t.l1, &t.l2, &t.r1, &t.r2}) {
        p->x -= (int64_t)c.xoff * 65536;
        p->y -= (int64_t)c.yoff * 65536;
      }
    }
  }
  c.p1 = R(0, 1 << 20);
  c.p2 = R(-6, 6);
  c.p3 = R(-6, 6);
  if (c.law == L_COMPOSITE) {
    c.p1 = R(0, 13);        // operator: CLEAR..ADD plus SATURATE
    c.p2 = R(0, 6);         // destination format selector
    c.p3 = R(0, 3);         // source kind
  }
  return c;
}

// ---------------------------------------------------------------- helpers
static bool coin_from_seed(uint64_t s) { return (s >> 17) & 1; }
static bool fits32(int64_t v) { return v >= INT32_MIN && v <= INT32_MAX; }
static bool trap_representable(const Trap &t) {
  for (int64_t v : {t.top, t.bottom, t.l1.x, t.l1.y, t.l2.x, t.l2.y, t.r1.x, t.r1.y, t.r2.x, t.r2.y})
    if (!fits32(v)) return false;
  return true;
}
static pixman_trapezoid_t to_pix(const Trap &t) {
  pixman_trapezoid_t p;
  p.top = (pixman_fixed_t)t.top;
  p.bottom = (pixman_fixed_t)t.bottom;
  p.left.p1 = {(pixman_fixed_t)t.l1.x, (pixman_fixed_t)t.l1.y};
  p.left.p2 = {(pixman_fixed_t)t.l2.x, (pixman_fixed_t)t.l2.y};
  p.right.p1 = {(pixman_fixed_t)t.r1.x, (pixman_fixed_t)t.r1.y};
  p.right.p2 = {(pixman_fixed_t)t.r2.x, (pixman_fixed_t)t.r2.y};
  return p;
}
static bool valid(const Trap &t) { return t.l1.y != t.l2.y && t.r1.y != t.r2.y && t.bottom > t.top; }
// is the edge walker's arithmetic in range?  (x at every sample row of the image must stay a 16.16 value, and so must
// the intermediate step products) — outside that the request cannot be represented (C04's business, not coverage)
static bool edge_in_range(const Pt &a, const Pt &b, int64_t ytop, int64_t ybot, int64_t xoff, int64_t yoff) {
  const Pt &t = a.y <= b.y ? a : b, &o = a.y <= b.y ? b : a;
  i128 dy = o.y - t.y, dx = o.x - t.x;
  for (int64_t y : {ytop, ybot}) {
    i128 num = (i128)(t.x + xoff) * dy + (i128)(y - (t.y + yoff)) * dx;
    i128 X = num / dy;
    if (X > ((i128)1 << 30) || X < -((i128)1 << 30)) return false;
  }
  return true;
}

struct Canvas {
  std::unique_ptr<Image> im;
  int depth;
};
static Canvas make_canvas(const TCase &c, int w, int h) {
  Bits b;
  b.fmt = fmt_index(AF[c.fmt]);
  b.w = w;
  b.h = h;
  b.pad = c.pad;
  b.fill = c.prefill == 0 ? FILL_ZERO : c.prefill == 1 ? FILL_RANDOM : FILL_ONES;
  b.seed = c.seed;
  b.fence = c.fence;
  Canvas cv;
  cv.im = make_image(b);
  cv.depth = c.fmt == 0 ? 1 : c.fmt == 1 ? 4 : 8;
  return cv;
}
static uint32_t getpx(const Image &im, int x, int y) { return raw_get(im.rowp(y), bpp(im.d.code()), x); }

// compare pixel contents of two canvases (pixels only; padding ignored)
static std::string diff_canvas(const Image &a, const Image &b) {
  for (int y = 0; y < a.d.h; y++)
    for (int x = 0; x < a.d.w; x++)
      if (getpx(a, x, y) != getpx(b, x, y)) return fmt("pixel (%d,%d): %u vs %u", x, y, getpx(a, x, y), getpx(b, x, y));
  return "";
}
static void sat_add(Image &dst, const Image &src) {
  int BPP = bpp(dst.d.code());
  uint32_t mx = fieldmask(BPP);
  for (int y = 0; y < dst.d.h; y++)
    for (int x = 0; x < dst.d.w; x++) {
      uint32_t v = getpx(dst, x, y) + getpx(src, x, y);
      if (BPP == 1) v = getpx(dst, x, y) | getpx(src, x, y);
      raw_put(dst.rowp(y), BPP, x, std::min(v, mx));
    }
}

// ---------------------------------------------------------------- exact model
// coverage added to pixel (px,py) by trapezoid t drawn at (xoff,yoff); *ambiguous set when an edge passes within one
// unit of a sample point of this pixel (tie handling is not pinned by the statement)
static int model_coverage(const Trap &t, const Grid &g, int px, int py, int64_t xoff, int64_t yoff, bool *ambiguous) {
  int cov = 0;
  int64_t top = t.top + yoff, bot = t.bottom + yoff;
  auto edge = [&](const Pt &a, const Pt &b, int64_t ys, i128 *num, i128 *den) {
    const Pt &tp = a.y <= b.y ? a : b, &bt = a.y <= b.y ? b : a;
    i128 dy = bt.y - tp.y, dx = bt.x - tp.x;
    *num = (i128)(tp.x + xoff) * dy + (i128)(ys - (tp.y + yoff)) * dx;  // X = num/den
    *den = dy;
  };
  for (int k = 0; k < g.ny; k++) {
    int64_t ys = (int64_t)py * 65536 + g.y0 + k * g.ys;
    if (!(ys >= top && ys < bot)) continue;
    i128 ln, ld, rn, rd;
    edge(t.l1, t.l2, ys, &ln, &ld);
    edge(t.r1, t.r2, ys, &rn, &rd);
    for (int j = 0; j < g.nx; j++) {
      int64_t P = (int64_t)px * 65536 + g.x0 + j * g.xs;
      // near-tie: |X - P| <= 1 unit for either edge
      i128 dl = (i128)P * ld - ln, dr = (i128)P * rd - rn;
      auto iabs = [](i128 v) { return v < 0 ? -v : v; };
      if (iabs(dl) <= 2 * ld || iabs(dr) <= 2 * rd) *ambiguous = true;
      bool in = (dl >= 0) && (dr < 0);  // X_l <= P < X_r
      if (in) cov++;
    }
  }
  return cov;
}

// Classify the differences between two canvases that a law says must be equal.  A differing pixel where one of the
// trapezoid's edges passes within two units of a sample point is the known tie inconsistency S17 (the edge walker
// reports X for a tie reached without a carry and X-1 otherwise, and stepping upwards from the line's top point always
// carries); any other differing pixel is a violation.
static void judge_law(Verdict &v, const Image &a, const Image &b, const std::vector<Trap> &ts, const Grid &g, int xoff, int yoff, const std::string &what) {
  std::string known_msg, other_msg;
  for (int y = 0; y < a.d.h; y++)
    for (int x = 0; x < a.d.w; x++) {
      uint32_t pa = raw_get(a.rowp(y), bpp(a.d.code()), x), pb = raw_get(b.rowp(y), bpp(b.d.code()), x);
      if (pa == pb) continue;
      bool amb = false;
      for (auto &t : ts) model_coverage(t, g, x, y, (int64_t)xoff * 65536, (int64_t)yoff * 65536, &amb);
      std::string m = fmt("%s: pixel (%d,%d): %u vs %u", what.c_str(), x, y, pa, pb);
      if (amb) {
        if (known_msg.empty()) known_msg = m + " [an edge passes within 2 units of a sample point of this pixel]";
      } else if (other_msg.empty())
        other_msg = m;
    }
  if (!other_msg.empty()) v.fail(other_msg);
  else if (!known_msg.empty()) {
    v.fail(known_msg);
    v.known = "S17";
  }
}

static void rasterize(pixman_image_t *im, const Trap &t, int xoff, int yoff) {
  pixman_trapezoid_t p = to_pix(t);
  pixman_rasterize_trapezoid(im, &p, xoff, yoff);
}

static Verdict run_case(const TCase &c) {
  Verdict v;
  v.label(std::string("law_") + law_name[c.law]);
  v.label(c.fmt == 0 ? "a1" : c.fmt == 1 ? "a4" : "a8");
  int depth = c.fmt == 0 ? 1 : c.fmt == 1 ? 4 : 8;
  Grid g = grid_for(depth);
  for (auto &t : c.traps) {
    if (!trap_representable(t)) {
      v.label("skipped_unrepresentable");
      return v;
    }
    // the entry points add the offsets to every coordinate in 16.16: a point whose translated position is not
    // representable cannot be expressed through the API
    {
      bool ok = true;
      int64_t ox = (int64_t)c.xoff * 65536, oy = (int64_t)c.yoff * 65536;
      for (int64_t vy : {t.top, t.bottom, t.l1.y, t.l2.y, t.r1.y, t.r2.y}) ok = ok && fits32(vy + oy);
      for (int64_t vx : {t.l1.x, t.l2.x, t.r1.x, t.r2.x}) ok = ok && fits32(vx + ox);
      if (!ok) {
        v.label("skipped_unrepresentable_after_offset");
        return v;
      }
    }
    if (!valid(t)) continue;  // (degenerate: no edge is ever walked)
    // sample rows of the image: [0, h)
    if (!edge_in_range(t.l1, t.l2, 0, (int64_t)c.h * 65536, (int64_t)c.xoff * 65536, (int64_t)c.yoff * 65536) ||
        !edge_in_range(t.r1, t.r2, 0, (int64_t)c.h * 65536, (int64_t)c.xoff * 65536, (int64_t)c.yoff * 65536)) {
      v.label("skipped_edge_out_of_fixed_range");
      return v;
    }
  }
  const Trap &T = c.traps[0];
  bool nonvertical = T.l1.x != T.l2.x || T.r1.x != T.r2.x;
  switch (c.law) {
  case L_MODEL: {
    Canvas cv = make_canvas(c, c.w, c.h);
    std::vector<pixman_trapezoid_t> ps;
    for (auto &t : c.traps) ps.push_back(to_pix(t));
    if (coin_from_seed(c.seed)) pixman_add_trapezoids(cv.im->im, (int16_t)c.xoff, c.yoff, (int)ps.size(), ps.data());
    else
      for (auto &t : c.traps) rasterize(cv.im->im, t, c.xoff, c.yoff);
    int covered = 0, amb = 0;
    for (int y = 0; y < c.h && v.ok; y++)
      for (int x = 0; x < c.w && v.ok; x++) {
        bool ambiguous = false;
        uint32_t before = raw_get(&cv.im->before[(size_t)(cv.im->rowp(y) - cv.im->buf.p)], depth, x);
        int64_t want = before;
        for (auto &t : c.traps)
          if (valid(t)) {
            int add = model_coverage(t, g, x, y, (int64_t)c.xoff * 65536, (int64_t)c.yoff * 65536, &ambiguous);
            want = depth == 1 ? (want | (add ? 1 : 0)) : std::min<int64_t>(g.maxv, want + add);  // saturating after every trapezoid
            if (add) covered++;
          }
        if (ambiguous) {
          amb++;
          continue;
        }
        uint32_t got = getpx(*cv.im, x, y);
        if ((int64_t)got != want)
          v.fail(fmt("pixel (%d,%d) of %dx%d %s: got %u, sample count model gives %lld (before %u)", x, y, c.w, c.h, FORMATS[cv.im->d.fmt].name, got, (long long)want, before));
      }
    // padding untouched
    for (int y = 0; y < c.h && v.ok; y++) {
      int rb = row_bytes(cv.im->d.code(), c.w), st = cv.im->d.stride();
      size_t off = (size_t)(cv.im->rowp(y) - cv.im->buf.p);
      if (memcmp(cv.im->buf.p + off + rb, cv.im->before.data() + off + rb, (size_t)(st - rb)) != 0) v.fail(fmt("row padding of row %d modified", y));
    }
    if (amb) v.label("pixels_skipped_edge_on_sample_point");
    v.nontrivial = covered > 0 && nonvertical;
    break;
  }
  case L_HSPLIT: {
    // T cut at y = cutting line into two trapezoids with the same left/right lines
    if (!valid(T)) return v;
    int64_t cut = T.top + 1 + c.p1 % std::max<int64_t>(1, T.bottom - T.top - 1);
    if (!(cut > T.top && cut < T.bottom)) return v;
    Trap A = T, B = T;
    A.bottom = cut;
    B.top = cut;
    TCase z = c;
    z.prefill = 0;
    Canvas whole = make_canvas(z, c.w, c.h), pa = make_canvas(z, c.w, c.h), pb = make_canvas(z, c.w, c.h);
    rasterize(whole.im->im, T, c.xoff, c.yoff);
    rasterize(pa.im->im, A, c.xoff, c.yoff);
    rasterize(pb.im->im, B, c.xoff, c.yoff);
    sat_add(*pa.im, *pb.im);
    judge_law(v, *whole.im, *pa.im, c.traps, g, c.xoff, c.yoff, fmt("horizontal split at y=%lld: whole vs sum of halves", (long long)cut));
    bool any = false;
    for (int y = 0; y < c.h; y++)
      for (int x = 0; x < c.w; x++) any |= getpx(*whole.im, x, y) != 0;
    v.nontrivial = any && nonvertical && ((cut + (int64_t)c.yoff * 65536) & 0xffff) != 0;
    break;
  }
  case L_ESPLIT: {
    // a middle line M given by the same two points in both halves
    if (!valid(T)) return v;
    Trap A = T, B = T;
    Pt m1, m2;
    // choose M between the x-ranges at the line endpoints (may cross: then rows where M is outside [L,R) are excluded by construction below)
    int64_t lo1 = std::min(T.l1.x, T.r1.x), hi1 = std::max(T.l1.x, T.r1.x), lo2 = std::min(T.l2.x, T.r2.x), hi2 = std::max(T.l2.x, T.r2.x);
    m1.x = lo1 + (hi1 > lo1 ? c.p1 % (hi1 - lo1 + 1) : 0);
    m2.x = lo2 + (hi2 > lo2 ? (c.p1 / 7) % (hi2 - lo2 + 1) : 0);
    m1.y = T.top - 65536 * std::llabs(c.p2);
    m2.y = T.bottom + 65536 * std::llabs(c.p3);
    if (!fits32(m1.y) || !fits32(m2.y)) return v;
    A.r1 = m1;
    A.r2 = m2;
    B.l1 = m1;
    B.l2 = m2;
    // the law holds where L <= M <= R on every covered sample row; verify that with exact arithmetic at top and bottom
    auto xat = [&](const Pt &a, const Pt &b, int64_t y, i128 *n, i128 *d) {
      const Pt &tp = a.y <= b.y ? a : b, &bt = a.y <= b.y ? b : a;
      *d = bt.y - tp.y;
      *n = (i128)tp.x * *d + (i128)(y - tp.y) * (bt.x - tp.x);
    };
    bool between = true;
    for (int64_t y : {T.top, T.bottom}) {
      i128 ln, ld, mn, md, rn, rd;
      xat(T.l1, T.l2, y, &ln, &ld);
      xat(m1, m2, y, &mn, &md);
      xat(T.r1, T.r2, y, &rn, &rd);
      if (ln * md > mn * ld || mn * rd > rn * md) between = false;  // L <= M <= R
    }
    if (!between) {
      v.label("esplit_skipped_middle_not_between");
      return v;
    }
    TCase z = c;
    z.prefill = 0;
    Canvas whole = make_canvas(z, c.w, c.h), pa = make_canvas(z, c.w, c.h), pb = make_canvas(z, c.w, c.h);
    rasterize(whole.im->im, T, c.xoff, c.yoff);
    rasterize(pa.im->im, A, c.xoff, c.yoff);
    rasterize(pb.im->im, B, c.xoff, c.yoff);
    sat_add(*pa.im, *pb.im);
    {
      std::vector<Trap> both{A, B};
      judge_law(v, *whole.im, *pa.im, both, g, c.xoff, c.yoff, "edge split: (L,R) vs (L,M)+(M,R)");
    }
    bool any = false;
    for (int y = 0; y < c.h; y++)
      for (int x = 0; x < c.w; x++) any |= getpx(*whole.im, x, y) != 0;
    v.nontrivial = any;
    break;
  }
  case L_OFFSET: {
    // raster(T, xoff+i, yoff+j) == raster(T shifted by (i,j), xoff, yoff)
    int i = (int)c.p2, j = (int)c.p3;
    Trap S = T;
    S.top += (int64_t)j * 65536;
    S.bottom += (int64_t)j * 65536;
    for (Pt *p : {&S.l1, &S.l2, &S.r1, &S.r2}) {
      p->x += (int64_t)i * 65536;
      p->y += (int64_t)j * 65536;
    }
    if (!trap_representable(S)) return v;
    Canvas a = make_canvas(c, c.w, c.h), b = make_canvas(c, c.w, c.h);
    rasterize(a.im->im, T, c.xoff + i, c.yoff + j);
    rasterize(b.im->im, S, c.xoff, c.yoff);
    std::string d = diff_canvas(*a.im, *b.im);
    if (!d.empty()) v.fail(fmt("whole-pixel offset (%d,%d) does not commute with rasterisation: %s", i, j, d.c_str()));
    v.nontrivial = (i || j) && nonvertical;
    break;
  }
  case L_TRIANGLE: {
    // a triangle from three of the trapezoid's points vs. an independently coded two-trapezoid decomposition
    Pt P[3] = {T.l1, T.r2, Pt{T.r1.x, T.l2.y}};
    pixman_triangle_t tri;
    tri.p1 = {(pixman_fixed_t)P[0].x, (pixman_fixed_t)P[0].y};
    tri.p2 = {(pixman_fixed_t)P[1].x, (pixman_fixed_t)P[1].y};
    tri.p3 = {(pixman_fixed_t)P[2].x, (pixman_fixed_t)P[2].y};
    TCase z = c;
    Canvas a = make_canvas(z, c.w, c.h), b = make_canvas(z, c.w, c.h), p2 = make_canvas(z, c.w, c.h);
    pixman_add_triangles(a.im->im, c.xoff, c.yoff, 1, &tri);
    // permutation invariance
    pixman_triangle_t perm = tri;
    int rot = (int)(c.p1 % 5) + 1;
    pixman_point_fixed_t q[3] = {tri.p1, tri.p2, tri.p3};
    static const int PERM[6][3] = {{0, 1, 2}, {0, 2, 1}, {1, 0, 2}, {1, 2, 0}, {2, 0, 1}, {2, 1, 0}};
    perm.p1 = q[PERM[rot][0]];
    perm.p2 = q[PERM[rot][1]];
    perm.p3 = q[PERM[rot][2]];
    pixman_add_triangles(p2.im->im, c.xoff, c.yoff, 1, &perm);
    std::string d0 = diff_canvas(*a.im, *p2.im);
    if (!d0.empty()) v.fail(fmt("triangle not invariant under vertex permutation %d: %s", rot, d0.c_str()));  // same lines either way: no tie excuse
    // decomposition: sort by y (then x); long edge top-bot; split at mid.y
    std::sort(P, P + 3, [](const Pt &u, const Pt &w) { return u.y != w.y ? u.y < w.y : u.x < w.x; });
    Pt tp = P[0], md = P[1], bt = P[2];
    if (tp.y == bt.y) {
      v.label("degenerate_triangle");
    } else {
      // which side is the long edge on?  sign of cross((bt-tp),(md-tp))
      i128 cross = (i128)(bt.x - tp.x) * (md.y - tp.y) - (i128)(bt.y - tp.y) * (md.x - tp.x);
      bool mid_is_left = cross > 0;  // y grows downwards: positive cross => md lies to the left of the long edge
      std::vector<Trap> parts;
      auto add = [&](int64_t top, int64_t bot, Pt s1, Pt s2) {
        if (bot <= top || s1.y == s2.y) return;
        Trap t;
        t.top = top;
        t.bottom = bot;
        if (mid_is_left) {
          t.l1 = s1;
          t.l2 = s2;
          t.r1 = tp;
          t.r2 = bt;
        } else {
          t.l1 = tp;
          t.l2 = bt;
          t.r1 = s1;
          t.r2 = s2;
        }
        parts.push_back(t);
      };
      add(tp.y, md.y, tp, md);
      add(md.y, bt.y, md, bt);
      if (cross != 0)
        for (auto &t : parts) rasterize(b.im->im, t, c.xoff, c.yoff);
      judge_law(v, *a.im, *b.im, parts, g, c.xoff, c.yoff, "triangle vs its two-trapezoid decomposition");
      bool any = false;
      for (int y = 0; y < c.h; y++)
        for (int x = 0; x < c.w; x++) any |= getpx(*a.im, x, y) != raw_get(&a.im->before[(size_t)(a.im->rowp(y) - a.im->buf.p)], depth, x);
      v.nontrivial = any;
    }
    break;
  }
  case L_COMPOSITE: {
    // composite_trapezoids(op, src, dst, fmt, ...) == rasterise into a zeroed mask + composite32 with that mask
    int op = (int)c.p1;
    // (x4a4 is an alpha-only format of the same size as a8 with fewer alpha bits: the direct-rasterisation shortcut must
    // not mistake it for the mask format)
    static const pixman_format_code_t DF[7] = {PIXMAN_a8r8g8b8, PIXMAN_x8r8g8b8, PIXMAN_a8, PIXMAN_r5g6b5, PIXMAN_a4, PIXMAN_a1, PIXMAN_x4a4};
    pixman_format_code_t df = DF[((c.p2 % 7) + 7) % 7];
    // (the library's temporary mask never exceeds the destination: shapes may extend far beyond it)
    Bits db;
    db.fmt = fmt_index(df);
    db.w = c.w;
    db.h = c.h;
    db.pad = c.pad;
    db.fill = FILL_PREMUL;
    db.seed = c.seed;
    auto d1 = make_image(db), d2 = make_image(db);
    pixman_image_t *src;
    std::unique_ptr<Image> sb;
    pixman_color_t col = {0x8000, 0x4000, 0xc000, 0xffff};
    if (c.p3 == 1) col.alpha = 0x9000, col.red = 0x7000, col.green = 0x3000, col.blue = 0x9000;
    if (c.p3 <= 1) src = pixman_image_create_solid_fill(&col);
    else {
      Bits s;
      s.fmt = fmt_index(c.p3 == 2 ? PIXMAN_a8r8g8b8 : PIXMAN_x8r8g8b8);
      s.w = c.w + 6;
      s.h = c.h + 6;
      s.fill = FILL_PREMUL;
      s.seed = c.seed ^ 77;
      sb = make_image(s);
      src = sb->im;
      pixman_image_set_repeat(src, PIXMAN_REPEAT_NORMAL);
    }
    int xs = (int)(c.seed % 5), ys_ = (int)((c.seed >> 8) % 5);
    pixman_trapezoid_t pt = to_pix(T);
    pixman_composite_trapezoids((pixman_op_t)op, src, d1->im, AF[c.fmt], xs, ys_, c.xoff, c.yoff, 1, &pt);
    // reference route
    TCase z = c;
    z.prefill = 0;
    z.pad = 0;
    Canvas mask = make_canvas(z, c.w, c.h);
    rasterize(mask.im->im, T, c.xoff, c.yoff);
    pixman_image_composite32((pixman_op_t)op, src, mask.im->im, d2->im, xs - c.xoff, ys_ - c.yoff, 0, 0, 0, 0, c.w, c.h);
    uint32_t dm = defined_mask(df);
    // known finding S15: for operators where a zero source changes the destination the library composites a
    // destination-sized window placed at (x_dst,y_dst) instead of the entire destination
    static const bool zero_src_no_effect[14] = {false, false, true, true, true, false, false, false, true, true, false, true, true, false};
    std::string known_msg, other_msg;
    const char *known_id = nullptr;
    for (int y = 0; y < c.h; y++)
      for (int x = 0; x < c.w; x++) {
        uint32_t a = raw_get(d1->rowp(y), bpp(df), x), b = raw_get(d2->rowp(y), bpp(df), x);
        if ((a & dm) == (b & dm)) continue;
        std::string m = fmt("composite_trapezoids(op %d, mask %s, dst %s, x_dst %d, y_dst %d) differs from rasterise+composite at (%d,%d): %x vs %x", op, FORMATS[mask.im->d.fmt].name,
                            FORMATS[db.fmt].name, c.xoff, c.yoff, x, y, a & dm, b & dm);
        bool in_window = x >= c.xoff && x < c.xoff + c.w && y >= c.yoff && y < c.yoff + c.h;
        bool amb = false;
        if (valid(T)) model_coverage(T, g, x, y, (int64_t)c.xoff * 65536, (int64_t)c.yoff * 65536, &amb);
        if (!zero_src_no_effect[op] && (c.xoff || c.yoff) && !in_window) {
          if (known_msg.empty()) known_msg = m, known_id = "S15";
        } else if (amb) {
          // the library rasterises into a temporary whose top edge clips the shape differently: tie inconsistency S17
          if (known_msg.empty()) known_msg = m + " [an edge passes within 2 units of a sample point of this pixel]", known_id = "S17";
        } else if (other_msg.empty())
          other_msg = m;
      }
    if (!other_msg.empty()) v.fail(other_msg);
    else if (!known_msg.empty()) {
      v.fail(known_msg);
      v.known = known_id;
    }
    if (c.p3 <= 1) pixman_image_unref(src);
    bool any = false;
    for (int y = 0; y < c.h; y++)
      for (int x = 0; x < c.w; x++) any |= getpx(*mask.im, x, y) != 0;
    v.nontrivial = any;
    if (!valid(T)) {
      v.label("degenerate_shape_composited");
      // non-trivial when the all-zero mask has to change the destination
      bool changed = false;
      for (int y = 0; y < c.h; y++)
        for (int x = 0; x < c.w; x++) changed |= (raw_get(d2->rowp(y), bpp(df), x) & dm) != (raw_get(&d2->before[(size_t)(d2->rowp(y) - d2->buf.p)], bpp(df), x) & dm);
      v.nontrivial = changed;
    }
    v.label(op == PIXMAN_OP_ADD && c.p3 == 0 && df == AF[c.fmt] ? "direct_route_candidate" : "general_route");
    break;
  }
  case L_ADDTRAPS: {
    // pixman_trap_t spans: edges (top.l,top.y)-(bot.l,bot.y) and (top.r,top.y)-(bot.r,bot.y). The span under test is
    // preceded, in the same call, by up to two spans that cover no sample row (zero height; a sliver between two sample
    // rows; far below the image): they add nothing, and the spans after them are still drawn (seeded C12u)
    std::vector<pixman_trap_t> list;
    int npre = (int)((c.seed >> 20) % 3);
    for (int k = 0; k < npre; k++) {
      pixman_trap_t iv;
      int64_t s0 = (T.top & ~(int64_t)0xffff) + g.y0;  // a sample row
      int64_t ty, by;
      switch ((int)((c.seed >> (24 + 2 * k)) % 3)) {
      case 0: ty = by = T.top; break;
      case 1: ty = s0 + 1, by = s0 + 3; break;
      default: ty = ((int64_t)c.h + 50 - c.yoff) * 65536, by = ty + 3 * 65536; break;
      }
      if (!fits32(ty) || !fits32(by) || !fits32(ty + (int64_t)c.yoff * 65536) || !fits32(by + (int64_t)c.yoff * 65536)) continue;
      iv.top.y = (pixman_fixed_t)ty;
      iv.bot.y = (pixman_fixed_t)by;
      iv.top.l = iv.bot.l = (pixman_fixed_t)T.l1.x;
      iv.top.r = iv.bot.r = (pixman_fixed_t)T.r1.x;
      list.push_back(iv);
    }
    if (!list.empty()) v.label("add_traps_after_invisible_spans");
    pixman_trap_t tr;
    tr.top.y = (pixman_fixed_t)T.top;
    tr.bot.y = (pixman_fixed_t)T.bottom;
    tr.top.l = (pixman_fixed_t)T.l1.x;
    tr.bot.l = (pixman_fixed_t)T.l2.x;
    tr.top.r = (pixman_fixed_t)T.r1.x;
    tr.bot.r = (pixman_fixed_t)T.r2.x;
    list.push_back(tr);
    Trap E;
    E.top = T.top;
    E.bottom = T.bottom;
    E.l1 = Pt{T.l1.x, T.top};
    E.l2 = Pt{T.l2.x, T.bottom};
    E.r1 = Pt{T.r1.x, T.top};
    E.r2 = Pt{T.r2.x, T.bottom};
    Canvas a = make_canvas(c, c.w, c.h), b = make_canvas(c, c.w, c.h);
    pixman_add_traps(a.im->im, (int16_t)c.xoff, (int16_t)c.yoff, (int)list.size(), list.data());
    if (T.bottom > T.top) rasterize(b.im->im, E, c.xoff, c.yoff);  // (a span of no height draws nothing either)
    {
      std::vector<Trap> one;
      if (T.bottom > T.top) one.push_back(E);
      judge_law(v, *a.im, *b.im, one, g, c.xoff, c.yoff, "add_traps vs rasterize_trapezoid of the equivalent trapezoid");
    }
    v.nontrivial = nonvertical;
    break;
  }
  }
  return v;
}

static void register_props() { add_prop<TCase>("traps", gen_case, run_case); }
VF_MAIN()
