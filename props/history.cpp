// C14: rendering depends only on an image's current properties, never on its history (DESIGN.md §4 C14).
// Long-lived source / mask / destination images (and two alpha-map images) go through a generated history of setter
// calls, direct pixel writes and composites; at every composite the same request is also issued on freshly created
// replicas that receive only the model's *current* property values and the current pixel bytes.
#include "scene.hpp"
#include <thread>
using namespace vf;
using namespace img;
using namespace scene;

enum Kind { H_TRANSFORM, H_FILTER, H_REPEAT, H_CLIP, H_CLIENT_CLIP, H_SOURCE_CLIPPING, H_ALPHA_MAP, H_COMPONENT_ALPHA, H_ACCESSORS, H_WRITE, H_DITHER, H_COMPOSITE, H_INDEXED, H_N };
struct Cmd {
  int kind = 0, target = 0;  // target: 0 src, 1 mask, 2 dst, 3/4 alpha-map images
  int a = 0, b = 0, c = 0;
  uint64_t seed = 0;
  template <class A> void io(A &ar) {
    ar.f("kind", kind);
    ar.f("target", target);
    ar.f("a", a);
    ar.f("b", b);
    ar.f("c", c);
    ar.f("seed", seed);
  }
};
struct HCase {
  int sfmt = 0, mfmt = 0, dfmt = 0, src_gradient = 0;
  int w = 12, h = 4;
  uint64_t seed = 0;
  std::vector<Cmd> cmds;
  template <class A> void io(A &ar) {
    ar.f("sfmt", sfmt);
    ar.f("mfmt", mfmt);
    ar.f("dfmt", dfmt);
    ar.f("src_gradient", src_gradient);
    ar.f("w", w);
    ar.f("h", h);
    ar.f("seed", seed);
    ar.f("cmds", cmds);
  }
};

static const pixman_format_code_t SF[] = {PIXMAN_a8r8g8b8, PIXMAN_x8r8g8b8, PIXMAN_r5g6b5, PIXMAN_a8, PIXMAN_c8, PIXMAN_a2r10g10b10, PIXMAN_a1r5g5b5};
static const pixman_format_code_t MFm[] = {PIXMAN_a8, PIXMAN_a8r8g8b8, PIXMAN_a1, PIXMAN_a4};
static const pixman_format_code_t DF[] = {PIXMAN_a8r8g8b8, PIXMAN_x8r8g8b8, PIXMAN_r5g6b5, PIXMAN_a8, PIXMAN_a2r10g10b10, PIXMAN_a8b8g8r8};

static HCase gen_case() {
  HCase h;
  h.sfmt = (int)R(0, 6);
  h.mfmt = (int)R(0, 3);
  h.dfmt = (int)R(0, 5);
  h.src_gradient = coin(15);
  h.w = (int)R(4, 20);
  h.h = (int)R(2, 5);
  h.seed = seed64();
  h.cmds = vec(30, [] {
    Cmd c;
    c.kind = pickw({5, 5, 4, 4, 2, 2, 5, 2, 3, 3, 1, 9, 1});
    c.target = pickw({5, 3, 3, 2, 1});
    c.a = (int)R(0, 5);
    c.b = (int)R(0, 5);
    c.c = (int)R(0, 5);
    c.seed = seed64();
    return c;
  });
  // motifs "A -> draw -> B -> draw -> A -> draw" on one property of one image (stale derived state shows up when a
  // value returns, or when a setter's early-return comparison is wrong)
  int nm = (int)R(1, 3);
  for (int k = 0; k < nm; k++) {
    Cmd p;
    p.kind = pickw({5, 6, 4, 4, 2, 2, 5, 2, 4, 0, 1, 0, 1});
    p.target = pickw({5, 3, 3, 2, 1});
    p.b = (int)R(0, 5);
    p.c = (int)R(0, 5);
    int x = (int)R(0, 5), y = (int)R(0, 5);
    auto draw = [&] {
      Cmd d;
      d.kind = H_COMPOSITE;
      d.a = (int)R(0, 5);
      d.b = (int)R(0, 5);
      d.c = (int)R(0, 5);
      h.cmds.push_back(d);
    };
    for (int v : {x, y, x}) {
      p.a = v;
      h.cmds.push_back(p);
      draw();
    }
  }
  if (coin(10)) {
    // "twins": source and mask of the same format, read at the same position, differing only in what component alpha
    // means for them (nothing for a source); the mask's setting changes between two otherwise identical requests
    h.src_gradient = 0;
    h.sfmt = 0;  // a8r8g8b8
    h.mfmt = 1;  // a8r8g8b8
    auto ca = [&](int target, int on) {
      Cmd p;
      p.kind = H_COMPONENT_ALPHA;
      p.target = target;
      p.a = on;
      h.cmds.push_back(p);
    };
    int opi = (int)R(0, 5);
    auto draw = [&] {
      Cmd d;
      d.kind = H_COMPOSITE;
      d.a = opi;
      d.b = 1;
      d.c = 4;
      h.cmds.push_back(d);
    };
    ca(0, 1);
    ca(1, 0);
    draw();
    ca(1, 1);
    draw();
    ca(1, 0);
    draw();
  }
  Cmd fin;
  fin.kind = H_COMPOSITE;
  fin.a = 1;
  h.cmds.push_back(fin);
  return h;
}

// small pools of property values, so that "same value again", "A -> B -> A" and "unset -> X -> unset" are frequent
static std::vector<int64_t> transform_pool(int i, int w, int h) {
  switch (i) {
  case 0: return {};  // no transform
  case 1: return {65536, 0, 0, 0, 65536, 0, 0, 0, 65536};
  case 2: return {65536, 0, 2 * 65536, 0, 65536, 65536, 0, 0, 65536};
  case 3: return {98304, 0, 32768, 0, 43691, 16384, 0, 0, 65536};
  case 4: return {0, -65536, (int64_t)h * 65536, 65536, 0, 0, 0, 0, 65536};
  default: return {60000, 9000, 70000, -8000, 70000, 20000, 300, -200, 65536};
  }
}
static void filter_pool(int i, SImg &s) {
  s.kw = s.kh = 1;
  s.kbx = s.kby = 0;
  s.kneg = 0;
  switch (i) {
  case 0: s.filter = 0; break;
  case 1: s.filter = 1; break;
  case 2:  // two 3x3 kernels that share size and leading coefficients
    s.filter = 2;
    s.kw = s.kh = 3;
    s.kseed = 1001;
    break;
  case 3:
    s.filter = 2;
    s.kw = s.kh = 3;
    s.kseed = 1002;
    break;
  case 4:
    s.filter = 3;
    s.kw = 2;
    s.kh = 3;
    s.kbx = 1;
    s.kby = 0;
    s.kseed = 7;
    break;
  default: s.filter = 5; break;  // GOOD
  }
}
// kernels for the pool: identical except for the last coefficients (so that a prefix comparison cannot tell them apart)
static std::vector<pixman_fixed_t> pool_kernel(const SImg &s) {
  if (s.filter == 2 && (s.kseed == 1001 || s.kseed == 1002)) {
    std::vector<pixman_fixed_t> p{3 << 16, 3 << 16, 0, 0, 0, 0, 65536, 0, 0, 0, 0};
    if (s.kseed == 1002) p = {3 << 16, 3 << 16, 0, 0, 0, 0, 16384, 16384, 0, 16384, 16384};
    return p;
  }
  return make_kernel(s);
}
static Boxes clip_pool(int i, int w, int h) {
  switch (i) {
  case 1: return {{0, 0, w, h}};
  case 2: return {{1, 0, w - 1, h}, {0, 1, w, h - 1}};
  case 3: return {{2, 1, w / 2 + 1, h}};
  case 4: return {{0, 0, 2, 2}, {w - 2, h - 2, w, h}};
  default: return {};
  }
}

struct Live {
  SImg model;
  BuiltImg b;
};

static void set_filter_real(pixman_image_t *im, const SImg &s, std::vector<pixman_fixed_t> &keep) {
  static const pixman_filter_t F[] = {PIXMAN_FILTER_NEAREST, PIXMAN_FILTER_BILINEAR, PIXMAN_FILTER_CONVOLUTION, PIXMAN_FILTER_SEPARABLE_CONVOLUTION, PIXMAN_FILTER_FAST, PIXMAN_FILTER_GOOD, PIXMAN_FILTER_BEST};
  if (s.filter == 2 || s.filter == 3) {
    keep = pool_kernel(s);
    pixman_image_set_filter(im, F[s.filter], keep.data(), (int)keep.size());
  } else
    pixman_image_set_filter(im, F[s.filter], nullptr, 0);
}
static void set_clip_real(pixman_image_t *im, const SImg &s, bool use16) {
  if (!s.has_clip) {
    pixman_image_set_clip_region32(im, nullptr);
    return;
  }
  if (use16) {
    std::vector<pixman_box16_t> bx;
    for (auto &c : s.clip) bx.push_back({(int16_t)c.x1, (int16_t)c.y1, (int16_t)c.x2, (int16_t)c.y2});
    pixman_region16_t r;
    pixman_region_init_rects(&r, bx.data(), (int)bx.size());
    pixman_image_set_clip_region(im, &r);
    pixman_region_fini(&r);
  } else {
    std::vector<pixman_box32_t> bx;
    for (auto &c : s.clip) bx.push_back({(int32_t)c.x1, (int32_t)c.y1, (int32_t)c.x2, (int32_t)c.y2});
    pixman_region32_t r;
    pixman_region32_init_rects(&r, bx.data(), (int)bx.size());
    pixman_image_set_clip_region32(im, &r);
    pixman_region32_fini(&r);
  }
}

// build a fresh image from the model's current values (one setter call each, fixed order) with the given pixel bytes
static void build_fresh(const SImg &m, BuiltImg &out, const Image *bytes_from, const Image *amap_bytes_from, const SImg *amap_model, BuiltImg *amap_out, std::vector<pixman_fixed_t> &keep) {
  SImg plain = m;
  plain.has_alpha_map = 0;
  plain.filter = 0;
  plain.accessors = 0;
  plain.has_clip = 0;
  plain.client_clip = plain.source_clipping = 0;
  build_img(plain, out, true);
  if (!out.im) return;
  if (out.bits && bytes_from) memcpy(out.bits->buf.p, bytes_from->buf.p, out.bits->buf.size);
  set_filter_real(out.im, m, keep);
  if (m.has_clip) set_clip_real(out.im, m, false);
  if (m.client_clip) pixman_image_set_has_client_clip(out.im, 1);
  if (m.source_clipping) pixman_image_set_source_clipping(out.im, 1);
  if (m.accessors && out.bits) {
    AccLog &l = acclog();
    if (l.n < 31) {
      l.lo[l.n] = out.bits->buf.p;
      l.hi[l.n] = out.bits->buf.p + out.bits->buf.size;
      l.n++;
    }
    pixman_image_set_accessors(out.im, acc_read, acc_write);
  }
  if (m.has_alpha_map && amap_model && amap_out) {
    std::vector<pixman_fixed_t> k2;
    build_fresh(*amap_model, *amap_out, amap_bytes_from, nullptr, nullptr, nullptr, k2);
    if (amap_out->im) pixman_image_set_alpha_map(out.im, amap_out->im, (int16_t)m.ax, (int16_t)m.ay);
  }
}

static Verdict run_case(const HCase &h) {
  Verdict v;
  acclog().n = 0;
  acclog().calls = acclog().bad = 0;
  Live L[5];
  // initial images
  auto init_bits = [&](SImg &s, pixman_format_code_t f, int w, int hh, uint64_t seed) {
    s.kind = 0;
    s.bits = gen_bits_fixed(fmt_index(f), w, hh, seed);
    s.bits.fill = FILL_PREMUL;
  };
  if (h.src_gradient) {
    SImg &s = L[0].model;
    s.kind = 2;
    s.stops = {Stop{0, 0xff102030}, Stop{30000, 0x80ff8000}, Stop{65536, 0xff00ffff}};
    s.geom = {0, 0, (int64_t)h.w * 65536, (int64_t)h.h * 32768};
  } else
    init_bits(L[0].model, SF[h.sfmt], h.w + 3, h.h + 2, h.seed);
  init_bits(L[1].model, MFm[h.mfmt], h.w + 2, h.h + 1, h.seed ^ 11);
  init_bits(L[2].model, DF[h.dfmt], h.w, h.h, h.seed ^ 22);
  init_bits(L[3].model, PIXMAN_a8, h.w, h.h, h.seed ^ 33);
  init_bits(L[4].model, PIXMAN_a8r8g8b8, h.w + 1, h.h + 1, h.seed ^ 44);
  for (int i = 0; i < 5; i++) {
    build_img(L[i].model, L[i].b, true);
    if (!L[i].b.im) {
      v.fail("image creation failed");
      return v;
    }
  }
  int amap_of[3] = {-1, -1, -1};  // which alpha-map image (3/4) is attached to src/mask/dst
  std::vector<pixman_fixed_t> keep[5];
  std::set<int> changed_props[5];
  bool used[5] = {false, false, false, false, false}, returned_to_earlier = false;
  std::map<std::pair<int, int>, std::vector<int>> value_history;
  int checkpoints = 0;
  auto note = [&](int target, int kind, int value) {
    if (used[target]) changed_props[target].insert(kind);
    auto &hist = value_history[{target, kind}];
    if (hist.size() >= 2 && std::find(hist.begin(), hist.end() - 1, value) != hist.end() - 1 && hist.back() != value) returned_to_earlier = true;
    hist.push_back(value);
  };
  for (size_t ci = 0; ci < h.cmds.size() && v.ok; ci++) {
    const Cmd &c = h.cmds[ci];
    int t = c.target;
    if (c.kind != H_COMPOSITE && c.kind != H_ALPHA_MAP && t >= 3 && !(c.kind == H_ACCESSORS || c.kind == H_WRITE || c.kind == H_CLIP)) t = t - 3;  // alpha-map images only get some setters
    SImg &m = L[t].model;
    pixman_image_t *im = L[t].b.im;
    bool is_bits = m.kind == 0;
    switch (c.kind) {
    case H_TRANSFORM: {
      auto tr = transform_pool(c.a, m.kind == 0 ? m.bits.w : h.w, m.kind == 0 ? m.bits.h : h.h);
      if (tr.empty()) {
        m.has_transform = 0;
        m.m.clear();
        pixman_image_set_transform(im, nullptr);
      } else {
        m.has_transform = 1;
        m.m = tr;
        pixman_transform_t pt;
        for (int i = 0; i < 9; i++) pt.matrix[i / 3][i % 3] = (pixman_fixed_t)tr[(size_t)i];
        pixman_image_set_transform(im, &pt);
      }
      note(t, c.kind, c.a);
      break;
    }
    case H_FILTER:
      filter_pool(c.a, m);
      set_filter_real(im, m, keep[t]);
      note(t, c.kind, c.a);
      break;
    case H_REPEAT:
      m.repeat = c.a % 4;
      pixman_image_set_repeat(im, (pixman_repeat_t)m.repeat);
      note(t, c.kind, m.repeat);
      break;
    case H_CLIP: {
      int w = is_bits ? m.bits.w : h.w, hh = is_bits ? m.bits.h : h.h;
      m.clip = clip_pool(c.a, w, hh);
      m.has_clip = (c.a % 6) != 0;  // pool entry 0 = no clip (NULL), entry 5 = a clip region that is set but empty
      set_clip_real(im, m, c.b & 1);
      note(t, c.kind, c.a);
      break;
    }
    case H_CLIENT_CLIP:
      m.client_clip = c.a & 1;
      pixman_image_set_has_client_clip(im, m.client_clip);
      note(t, c.kind, m.client_clip);
      break;
    case H_SOURCE_CLIPPING:
      m.source_clipping = c.a & 1;
      pixman_image_set_source_clipping(im, m.source_clipping);
      note(t, c.kind, m.source_clipping);
      break;
    case H_ALPHA_MAP: {
      int owner = c.target % 3;
      if (L[owner].model.kind != 0) break;
      int which = c.a % 3;  // 0 detach, 1 -> image 3, 2 -> image 4
      SImg &om = L[owner].model;
      if (c.b >= 4 && !om.has_alpha_map) {
        // an episode that must leave no trace: the image itself serves as the alpha map of a short-lived image, which
        // then lets go of it (explicitly, or by being destroyed); afterwards it can be given a map of its own again
        uint32_t px[16] = {0};
        pixman_image_t *tmp = pixman_image_create_bits(PIXMAN_a8r8g8b8, 4, 4, px, 16);
        pixman_image_set_alpha_map(tmp, L[owner].b.im, 1, 0);
        if (c.b == 4) pixman_image_set_alpha_map(tmp, nullptr, 0, 0);
        pixman_image_unref(tmp);
      }
      if (which == 0) {
        om.has_alpha_map = 0;
        amap_of[owner] = -1;
        pixman_image_set_alpha_map(L[owner].b.im, nullptr, 0, 0);
      } else {
        // an image that is used as an alpha map by another owner may still be attached here (maps can be shared)
        om.has_alpha_map = 1;
        om.ax = c.b - 2;
        om.ay = c.c - 2;
        amap_of[owner] = 2 + which;
        pixman_image_set_alpha_map(L[owner].b.im, L[2 + which].b.im, (int16_t)om.ax, (int16_t)om.ay);
      }
      note(owner, c.kind, which * 100 + c.b * 10 + c.c);
      break;
    }
    case H_COMPONENT_ALPHA:
      m.component_alpha = c.a & 1;
      pixman_image_set_component_alpha(im, m.component_alpha);
      note(t, c.kind, m.component_alpha);
      break;
    case H_ACCESSORS:
      if (!is_bits) break;
      m.accessors = c.a & 1;
      if (m.accessors) {
        AccLog &l = acclog();
        bool have = false;
        for (int i = 0; i < l.n; i++) have |= l.lo[i] == L[t].b.bits->buf.p;
        if (!have && l.n < 31) {
          l.lo[l.n] = L[t].b.bits->buf.p;
          l.hi[l.n] = L[t].b.bits->buf.p + L[t].b.bits->buf.size;
          l.n++;
        }
        pixman_image_set_accessors(im, acc_read, acc_write);
      } else
        pixman_image_set_accessors(im, nullptr, nullptr);
      note(t, c.kind, m.accessors);
      break;
    case H_WRITE: {
      if (!is_bits) break;
      Mix mx(c.seed);
      Image &I = *L[t].b.bits;
      int n = 1 + (int)(c.seed % 7);
      for (int k = 0; k < n; k++) {
        int x = mx.range(0, I.d.w - 1), y = mx.range(0, I.d.h - 1);
        raw_put(I.rowp(y), bpp(I.d.code()), x, gen_px(I.d.code(), FILL_PREMUL, mx, 0));
      }
      break;
    }
    case H_DITHER:
      if (t != 2) break;
      m.dither = c.a % 6;  // NONE, FAST, GOOD, BEST, ORDERED_BAYER_8, ORDERED_BLUE_NOISE_64
      pixman_image_set_dither(im, (pixman_dither_t)m.dither);
      // offsets from a pool of four values per axis (also negative), so that "x unchanged, y takes x's value" and other
      // coincidences between the two coordinates occur
      m.dox = (c.b % 4) * 3 - 3;
      m.doy = (c.c % 4) * 3 - 3;
      pixman_image_set_dither_offset(im, m.dox, m.doy);
      note(t, c.kind, m.dither * 100 + (c.b % 4) * 10 + (c.c % 4));
      break;
    case H_INDEXED:
      if (!is_bits || !is_indexed(m.bits.code())) break;
      // a new (consistent) palette: re-derive from a different seed
      L[t].b.bits->pal.reset(new pixman_indexed_t);
      make_palette(L[t].b.bits->pal.get(), m.bits.code(), m.bits.seed + 1 + (uint64_t)c.a);
      pixman_image_set_indexed(im, L[t].b.bits->pal.get());
      m.bits.seed = m.bits.seed;  // the replica copies the palette object below
      note(t, c.kind, c.a);
      break;
    case H_COMPOSITE: {
      static const int OPS[] = {PIXMAN_OP_SRC, PIXMAN_OP_OVER, PIXMAN_OP_ADD, PIXMAN_OP_IN, PIXMAN_OP_XOR, PIXMAN_OP_SATURATE};
      int op = OPS[c.a % 6];
      bool with_mask = c.b & 1;
      int sx = (c.c % 3) - 1, sy = (c.b % 2), dx = (c.c / 3), dy = 0;
      // the mask is read either at the source's position or at its origin
      int mx = (c.c % 2) == 0 ? sx : 0, my = (c.c % 2) == 0 ? sy : 0;
      int w = h.w - dx - (c.b % 3), hh = h.h - (c.a % 2);
      if (w < 1) w = 1;
      if (hh < 1) hh = 1;
      // fresh replicas from the model's current values and the current pixel bytes
      BuiltImg F[3], FAm[2];  // one fresh replica per alpha-map pool image: an image attached to two owners stays shared
      std::vector<pixman_fixed_t> fk[3], fka[2];
      int nreg = acclog().n;
      for (int i = 0; i < 3; i++) {
        if (i == 1 && !with_mask) continue;
        int am = L[i].model.has_alpha_map ? amap_of[i] : -1;
        SImg owner = L[i].model;
        owner.has_alpha_map = 0;
        build_fresh(owner, F[i], L[i].b.bits.get(), nullptr, nullptr, nullptr, fk[i]);
        if (F[i].im && am >= 0) {
          BuiltImg &fa = FAm[am - 3];
          if (!fa.im) build_fresh(L[am].model, fa, L[am].b.bits.get(), nullptr, nullptr, nullptr, fka[am - 3]);
          if (fa.im) pixman_image_set_alpha_map(F[i].im, fa.im, (int16_t)L[i].model.ax, (int16_t)L[i].model.ay);
        }
        if (!F[i].im) {
          v.fail("replica creation failed");
          break;
        }
        if (L[i].model.kind == 0 && is_indexed(L[i].model.bits.code()) && F[i].bits) {
          *F[i].bits->pal = *L[i].b.bits->pal;
          pixman_image_set_indexed(F[i].im, F[i].bits->pal.get());
        }
      }
      if (!v.ok) break;
      pixman_image_composite32((pixman_op_t)op, L[0].b.im, with_mask ? L[1].b.im : nullptr, L[2].b.im, sx, sy, mx, my, dx, dy, w, hh);
      // the replicas are drawn on a thread of their own: whatever the drawing thread has cached about earlier requests
      // (the thread-local fast-path cache) is part of the history too, and a new thread starts without it
      std::thread([&] { pixman_image_composite32((pixman_op_t)op, F[0].im, with_mask ? F[1].im : nullptr, F[2].im, sx, sy, mx, my, dx, dy, w, hh); }).join();
      used[0] = used[2] = true;
      if (with_mask) used[1] = true;
      for (int i = 0; i < 3; i++)
        if (amap_of[i] >= 0 && L[i].model.has_alpha_map) used[amap_of[i]] = true;
      checkpoints++;
      // compare destination (and its alpha map) on defined bits
      {
        std::string a, b;
        bool amapd = L[2].model.has_alpha_map && amap_of[2] >= 0;
        digest_image(*L[2].b.bits, amapd, false, a);
        digest_image(*F[2].bits, amapd, false, b);
        if (a != b) v.fail(fmt("checkpoint %d (command %zu, op %d%s): the long-lived images render differently from fresh images with the same current properties and pixels", checkpoints, ci, op, with_mask ? ", masked" : ""));
        if (v.ok && amapd && FAm[amap_of[2] - 3].bits) {
          std::string c1, c2;
          digest_image(*L[amap_of[2]].b.bits, false, true, c1);
          digest_image(*FAm[amap_of[2] - 3].bits, false, true, c2);
          if (c1 != c2) v.fail(fmt("checkpoint %d: destination alpha map differs between long-lived and fresh images", checkpoints));
        }
      }
      // the replicas' accessor ranges go away with them
      acclog().n = nreg;
      break;
    }
    }
  }
  if (acclog().bad) v.fail("accessor called with an address outside the pixel storage");
  int multi = 0;
  for (int i = 0; i < 5; i++) multi = std::max(multi, (int)changed_props[i].size());
  v.nontrivial = checkpoints >= 2 && multi >= 2 && returned_to_earlier;
  if (returned_to_earlier) v.label("value_returned_to_earlier");
  if (h.src_gradient) v.label("gradient_source");
  return v;
}

static void register_props() { add_prop<HCase>("history", gen_case, run_case); }
VF_MAIN()
