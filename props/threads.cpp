// C16: concurrent drawing from several threads is race-free and deterministic (DESIGN.md §4 C16).
// A workload = a pool of source images shared read-only by all threads (validated by one use on the main thread before
// any thread starts: the property's precondition) + a shared read-only region + T thread programs, each a list of
// requests (composites, fill_rectangles, pixman_fill, region algebra, trapezoids/triangles, glyph drawing with a
// thread-private cache) on thread-private destinations and private sources.
// Oracles: (1) every thread's result digest equals the digest of the same program run alone on the main thread;
// (2) in the ThreadSanitizer build, any data-race report kills the process (the driver turns that into a violation).
#include "scene.hpp"
#include <pthread.h>
#include <thread>
using namespace vf;
using namespace img;
using namespace scene;

enum { Q_COMPOSITE, Q_FILL_RECTS, Q_FILL, Q_REGION, Q_TRAPS, Q_TRIS, Q_GLYPHS, Q_N };
static const char *QN[] = {"composite", "fill_rectangles", "pixman_fill", "region", "trapezoids", "triangles", "glyphs"};
struct Req {
  int kind = 0, src = 0, mask = -1, op = PIXMAN_OP_OVER;
  int sx = 0, sy = 0, mx = 0, my = 0, dx = 0, dy = 0, w = 1, h = 1, n = 1;
  uint64_t seed = 0;
  template <class A> void io(A &a) {
    a.f("kind", kind);
    a.f("src", src);
    a.f("mask", mask);
    a.f("op", op);
    a.f("sx", sx);
    a.f("sy", sy);
    a.f("mx", mx);
    a.f("my", my);
    a.f("dx", dx);
    a.f("dy", dy);
    a.f("w", w);
    a.f("h", h);
    a.f("n", n);
    a.f("seed", seed);
  }
};
struct Th {
  SImg dst;
  std::vector<SImg> priv;
  std::vector<Req> reqs;
  template <class A> void io(A &a) {
    a.f("dst", dst);
    a.f("priv", priv);
    a.f("reqs", reqs);
  }
};
struct TCase {
  std::vector<SImg> shared;
  uint64_t rseed = 0;
  std::vector<Th> th;
  template <class A> void io(A &a) {
    a.f("shared", shared);
    a.f("rseed", rseed);
    a.f("th", th);
  }
};

static int gen_op() {
  int op = coin(70) ? (int)(coin(50) ? pick<int>({PIXMAN_OP_SRC, PIXMAN_OP_OVER, PIXMAN_OP_ADD, PIXMAN_OP_IN, PIXMAN_OP_OUT_REVERSE, PIXMAN_OP_OVER_REVERSE}) : (int)R(PIXMAN_OP_CLEAR, PIXMAN_OP_SATURATE))
                    : (int)(coin(50) ? R(PIXMAN_OP_DISJOINT_CLEAR, PIXMAN_OP_CONJOINT_XOR) : R(PIXMAN_OP_MULTIPLY, PIXMAN_OP_HSL_LUMINOSITY));
  if (op > PIXMAN_OP_SATURATE && op < PIXMAN_OP_DISJOINT_CLEAR) op = PIXMAN_OP_OVER;
  if (op > PIXMAN_OP_DISJOINT_XOR && op < PIXMAN_OP_CONJOINT_CLEAR) op = PIXMAN_OP_ADD;
  if (op > PIXMAN_OP_CONJOINT_XOR && op < PIXMAN_OP_MULTIPLY) op = PIXMAN_OP_SRC;
  return op;
}

static Th gen_thread(const GenOpts &o, int nshared) {
  Th t;
  SImg &d = t.dst;
  d.kind = 0;
  int f = coin(60) ? fmt_index(pick<pixman_format_code_t>({PIXMAN_a8r8g8b8, PIXMAN_x8r8g8b8, PIXMAN_r5g6b5, PIXMAN_a8})) : gen_dst_format(true);
  d.bits = gen_bits(f, 1, 1);
  d.bits.w = coin(30) ? WIDTHS[R(3, 12)] : (int)R(6, 40);
  d.bits.h = (int)R(2, 6);
  if (coin(15)) {
    d.has_clip = 1;
    d.clip = gen_clip(d.bits.w, d.bits.h, 3);
  }
  if (coin(5)) {
    d.has_alpha_map = 1;
    d.amap = gen_bits(fmt_index(pick<pixman_format_code_t>({PIXMAN_a8, PIXMAN_a4, PIXMAN_a1, PIXMAN_a8r8g8b8})), 1, 1);
    d.amap.w = std::max(1, d.bits.w + (int)R(-3, 2));
    d.amap.h = std::max(1, d.bits.h + (int)R(-2, 1));
    d.ax = (int)R(-2, 3);
    d.ay = (int)R(-1, 2);
  }
  int np = pickw({5, 3, 2});
  for (int i = 0; i < np; i++) t.priv.push_back(gen_source(o, d.bits.w, d.bits.h, coin(30)));
  int npool = nshared + np;
  // (captures by value: rapidcheck keeps the generator and runs it again while shrinking, after this function returned)
  int dw = d.bits.w, dh = d.bits.h;
  auto gen_req = [nshared, npool, dw, dh] {
    auto idx = [nshared, npool]() { return coin(70) ? (int)R(0, nshared - 1) : (int)R(0, npool - 1); };
    Req r;
    r.kind = pickw({10, 4, 1, 2, 2, 1, 2});
    r.src = idx();
    r.mask = coin(45) ? idx() : -1;
    r.op = gen_op();
    r.sx = (int)R(-2, 5);
    r.sy = (int)R(-1, 3);
    r.mx = (int)R(-2, 5);
    r.my = (int)R(-1, 3);
    r.dx = (int)R(-2, 4);
    r.dy = (int)R(-1, 2);
    r.w = (int)R(1, dw + 3);
    r.h = (int)R(1, dh + 1);
    r.n = (int)R(1, 8);
    r.seed = seed64();
    return r;
  };
  t.reqs = vec(14, gen_req);
  while (t.reqs.size() < 3) t.reqs.push_back(gen_req());
  return t;
}

static TCase gen_case() {
  TCase c;
  GenOpts o;
  o.gradients = true;
  o.accessors = false;  // accessors are client code; the shared log of the other harnesses is not thread-safe
  o.alpha_maps = true;
  int ns = (int)R(1, 4);
  for (int i = 0; i < ns; i++) c.shared.push_back(gen_source(o, 24, 5, coin(25)));
  if (coin(45)) {
    SImg s;
    s.kind = 1;
    s.color = u32();
    c.shared.push_back(s);
  }
  c.rseed = seed64();
  int nt = pickw({0, 0, 5, 3, 4, 1, 1, 0, 3}) ;
  if (nt < 2) nt = 2;
  if (coin(5)) nt = 16;
  c.th.push_back(gen_thread(o, (int)c.shared.size()));
  bool clones = coin(25);
  for (int i = 1; i < nt; i++) {
    if (clones) {
      Th t = c.th[0];
      // same programs, different values: private seeds differ so that cross-talk cannot hide behind equal data
      for (auto &r : t.reqs) r.seed = r.seed * 6364136223846793005ULL + (uint64_t)i;
      t.dst.bits.seed += (uint64_t)i;
      c.th.push_back(t);
    } else
      c.th.push_back(gen_thread(o, (int)c.shared.size()));
  }
  return c;
}

// ---------------------------------------------------------------- execution
struct Pool {
  std::vector<std::unique_ptr<BuiltImg>> im;
  pixman_region32_t region;
  pixman_region16_t region16;
  bool ok = true;
};

static void sanitize(SImg &s) { s.accessors = 0; }

static pixman_color_t color_of(uint32_t c) {
  return pixman_color_t{(uint16_t)(((c >> 16) & 0xff) * 257), (uint16_t)(((c >> 8) & 0xff) * 257), (uint16_t)((c & 0xff) * 257), (uint16_t)((c >> 24) * 257)};
}

static void feed(uint64_t &h, uint64_t v) {
  for (int k = 0; k < 8; k++) h = (h ^ ((v >> (8 * k)) & 0xff)) * 1099511628211ULL;
}
static void feed_region(uint64_t &h, pixman_region32_t *r) {
  int n = 0;
  pixman_box32_t *b = pixman_region32_rectangles(r, &n);
  feed(h, (uint64_t)n);
  for (int i = 0; i < n; i++) {
    feed(h, (uint32_t)b[i].x1);
    feed(h, (uint32_t)b[i].y1);
    feed(h, (uint32_t)b[i].x2);
    feed(h, (uint32_t)b[i].y2);
  }
  pixman_box32_t *e = pixman_region32_extents(r);
  feed(h, (uint32_t)e->x1 ^ ((uint64_t)(uint32_t)e->x2 << 32));
}
static void feed_region16(uint64_t &h, pixman_region16_t *r) {
  int n = 0;
  pixman_box16_t *b = pixman_region_rectangles(r, &n);
  feed(h, (uint64_t)n);
  for (int i = 0; i < n; i++) feed(h, ((uint64_t)(uint16_t)b[i].x1 << 48) | ((uint64_t)(uint16_t)b[i].y1 << 32) | ((uint64_t)(uint16_t)b[i].x2 << 16) | (uint16_t)b[i].y2);
}

static void random_region(Mix &mx, pixman_region32_t *out, int n) {
  std::vector<pixman_box32_t> b;
  for (int i = 0; i < n; i++) {
    int x = mx.range(-20, 60), y = mx.range(-10, 30);
    b.push_back(pixman_box32_t{x, y, x + mx.range(1, 25), y + mx.range(1, 12)});
  }
  if (!pixman_region32_init_rects(out, b.data(), (int)b.size())) pixman_region32_init(out);
}
static void random_region16(Mix &mx, pixman_region16_t *out, int n) {
  std::vector<pixman_box16_t> b;
  for (int i = 0; i < n; i++) {
    int x = mx.range(-20, 60), y = mx.range(-10, 30);
    b.push_back(pixman_box16_t{(int16_t)x, (int16_t)y, (int16_t)(x + mx.range(1, 25)), (int16_t)(y + mx.range(1, 12))});
  }
  if (!pixman_region_init_rects(out, b.data(), (int)b.size())) pixman_region_init(out);
}

static pixman_fixed_t fx(Mix &mx, int lo, int hi) {
  // mostly off-grid sub-pixel positions, sometimes integers
  int v = mx.range(lo * 256, hi * 256);
  return (pixman_fixed_t)(mx.range(0, 3) ? v * 256 + mx.range(0, 255) : (v / 256) * 65536);
}

// runs one thread program; returns its digest
static std::string run_program(const TCase &c, const Th &tin, Pool &pool) {
  Th t = tin;
  sanitize(t.dst);
  BuiltImg dst;
  build_img(t.dst, dst, true);
  if (!dst.im) return "nodest";
  std::vector<std::unique_ptr<BuiltImg>> priv;
  for (auto s : t.priv) {
    sanitize(s);
    priv.emplace_back(new BuiltImg());
    build_img(s, *priv.back(), false);
  }
  int ns = (int)pool.im.size(), npool = ns + (int)priv.size();
  auto get = [&](int i) -> pixman_image_t * {
    if (i < 0 || npool == 0) return nullptr;
    i %= npool;
    return i < ns ? pool.im[(size_t)i]->im : priv[(size_t)(i - ns)]->im;
  };
  uint64_t h = 1469598103934665603ULL;
  pixman_glyph_cache_t *cache = nullptr;
  std::vector<std::unique_ptr<Image>> glyph_imgs;
  int dw = t.dst.bits.w, dh = t.dst.bits.h;
  for (const Req &r : t.reqs) {
    Mix mx(r.seed);
    pixman_image_t *src = get(r.src), *mask = get(r.mask);
    switch (((r.kind % Q_N) + Q_N) % Q_N) {
      case Q_COMPOSITE:
        if (src) pixman_image_composite32((pixman_op_t)r.op, src, mask, dst.im, r.sx, r.sy, r.mx, r.my, r.dx, r.dy, r.w, r.h);
        break;
      case Q_FILL_RECTS: {
        int n = std::max(1, std::min(r.n, 12));
        std::vector<pixman_rectangle16_t> rc;
        for (int i = 0; i < n; i++) rc.push_back(pixman_rectangle16_t{(int16_t)mx.range(-3, dw), (int16_t)mx.range(-2, dh), (uint16_t)mx.range(0, dw), (uint16_t)mx.range(0, dh)});
        pixman_color_t col = color_of(mx.u32());
        feed(h, (uint64_t)pixman_image_fill_rectangles((pixman_op_t)r.op, dst.im, &col, n, rc.data()));
        break;
      }
      case Q_FILL: {
        int x = std::max(0, std::min(r.dx, dw - 1)), y = std::max(0, std::min(r.dy, dh - 1));
        int w = std::max(1, std::min(r.w, dw - x)), hh = std::max(1, std::min(r.h, dh - y));
        int B = bpp(t.dst.bits.code());
        if (B == 8 || B == 16 || B == 32)
          feed(h, (uint64_t)pixman_fill(pixman_image_get_data(dst.im), pixman_image_get_stride(dst.im) / 4, B, x, y, w, hh, mx.u32()));
        break;
      }
      case Q_REGION: {
        if (mx.range(0, 2)) {
          pixman_region32_t a, b, o;
          random_region(mx, &a, r.n);
          random_region(mx, &b, 1 + r.n / 2);
          pixman_region32_init(&o);
          pixman_region32_union(&o, &a, &pool.region);       // shared read-only operand
          feed_region(h, &o);
          pixman_region32_subtract(&o, &pool.region, &b);
          feed_region(h, &o);
          pixman_region32_intersect(&a, &a, &pool.region);
          feed_region(h, &a);
          pixman_box32_t bx = {mx.range(-10, 20), mx.range(-5, 10), 0, 0};
          bx.x2 = bx.x1 + mx.range(1, 40);
          bx.y2 = bx.y1 + mx.range(1, 20);
          pixman_region32_inverse(&o, &b, &bx);
          feed_region(h, &o);
          feed(h, (uint64_t)pixman_region32_contains_rectangle(&pool.region, &bx));
          feed(h, (uint64_t)pixman_region32_equal(&a, &pool.region));
          pixman_region32_translate(&b, mx.range(-5, 5), mx.range(-5, 5));
          feed_region(h, &b);
          pixman_region32_fini(&a);
          pixman_region32_fini(&b);
          pixman_region32_fini(&o);
        } else {
          pixman_region16_t a, o;
          random_region16(mx, &a, r.n);
          pixman_region_init(&o);
          pixman_region_union(&o, &a, &pool.region16);
          feed_region16(h, &o);
          pixman_region_subtract(&o, &pool.region16, &a);
          feed_region16(h, &o);
          pixman_region_intersect(&o, &a, &pool.region16);
          feed_region16(h, &o);
          pixman_region_fini(&a);
          pixman_region_fini(&o);
        }
        break;
      }
      case Q_TRAPS: {
        if (!src) break;
        int n = std::max(1, std::min(r.n, 6));
        std::vector<pixman_trapezoid_t> tr;
        for (int i = 0; i < n; i++) {
          pixman_trapezoid_t z;
          z.top = fx(mx, -2, dh);
          z.bottom = z.top + fx(mx, 0, dh) + 1;
          z.left.p1 = {fx(mx, -3, dw), z.top - fx(mx, 0, 2)};
          z.left.p2 = {fx(mx, -3, dw), z.bottom + fx(mx, 0, 2)};
          z.right.p1 = {z.left.p1.x + fx(mx, 0, dw), z.left.p1.y};
          z.right.p2 = {z.left.p2.x + fx(mx, 0, dw), z.left.p2.y};
          tr.push_back(z);
        }
        pixman_format_code_t mf = (pixman_format_code_t[]){PIXMAN_a8, PIXMAN_a1, PIXMAN_a4}[mx.range(0, 2)];
        pixman_composite_trapezoids((pixman_op_t)r.op, src, dst.im, mf, r.sx, r.sy, r.dx, r.dy, n, tr.data());
        break;
      }
      case Q_TRIS: {
        if (!src) break;
        int n = std::max(1, std::min(r.n, 5));
        std::vector<pixman_triangle_t> tr;
        for (int i = 0; i < n; i++) {
          pixman_triangle_t z;
          z.p1 = {fx(mx, -3, dw + 3), fx(mx, -2, dh + 2)};
          z.p2 = {fx(mx, -3, dw + 3), fx(mx, -2, dh + 2)};
          z.p3 = {fx(mx, -3, dw + 3), fx(mx, -2, dh + 2)};
          tr.push_back(z);
        }
        pixman_composite_triangles((pixman_op_t)r.op, src, dst.im, mx.range(0, 1) ? PIXMAN_a8 : PIXMAN_a1, r.sx, r.sy, r.dx, r.dy, n, tr.data());
        break;
      }
      case Q_GLYPHS: {
        if (!src) break;
        if (!cache) cache = pixman_glyph_cache_create();
        if (!cache) break;
        pixman_glyph_cache_freeze(cache);
        int n = std::max(1, std::min(r.n, 8));
        static const pixman_format_code_t GF[] = {PIXMAN_a8, PIXMAN_a8, PIXMAN_a1, PIXMAN_a8r8g8b8, PIXMAN_a4};
        bool same_fmt = mx.range(0, 1);
        pixman_format_code_t f0 = GF[mx.range(0, 4)];
        std::vector<pixman_glyph_t> gl;
        for (int i = 0; i < n; i++) {
          void *font = (void *)(uintptr_t)(0x1000 + (r.seed & 0xff0));
          void *key = (void *)(uintptr_t)(0x10 + i * 16 + (int)(r.seed >> 60));
          const void *g = pixman_glyph_cache_lookup(cache, font, key);
          if (!g) {
            pixman_format_code_t gf = same_fmt ? f0 : GF[mx.range(0, 4)];
            glyph_imgs.push_back(make_image(gen_bits_fixed(fmt_index(gf), mx.range(1, 7), mx.range(1, 5), mx.next())));
            if (glyph_imgs.back()->im) g = pixman_glyph_cache_insert(cache, font, key, mx.range(0, 3), mx.range(0, 3), glyph_imgs.back()->im);
          }
          if (g) gl.push_back(pixman_glyph_t{mx.range(-2, dw), mx.range(-1, dh), g});
        }
        if (!gl.empty()) {
          if (mx.range(0, 1)) {
            pixman_format_code_t mf = mx.range(0, 1) ? PIXMAN_a8 : PIXMAN_a8r8g8b8;
            pixman_composite_glyphs((pixman_op_t)r.op, src, dst.im, mf, r.sx, r.sy, r.mx, r.my, r.dx, r.dy, r.w, r.h, cache, (int)gl.size(), gl.data());
          } else
            pixman_composite_glyphs_no_mask((pixman_op_t)r.op, src, dst.im, r.sx, r.sy, r.dx, r.dy, cache, (int)gl.size(), gl.data());
        }
        pixman_glyph_cache_thaw(cache);
        break;
      }
    }
  }
  if (cache) pixman_glyph_cache_destroy(cache);
  std::string out;
  digest_image(*dst.bits, dst.amap != nullptr, false, out);
  if (dst.amap) {
    out += ":";
    digest_image(*dst.amap, false, true, out);
  }
  char buf[32];
  snprintf(buf, sizeof buf, "/%016llx", (unsigned long long)h);
  return out + buf;
}

static bool g_cold = false;  // cold-start variant: no shared images (their first use would happen on the main thread)
static Verdict run_case(const TCase &cin) {
  Verdict v;
  TCase c = cin;
  if (c.th.empty() || (c.shared.empty() && !g_cold)) return v;
  if (c.th.size() > 16) c.th.resize(16);
  Pool pool;
  for (auto s : c.shared) {
    sanitize(s);
    pool.im.emplace_back(new BuiltImg());
    build_img(s, *pool.im.back(), false);
    if (!pool.im.back()->im) return v;  // unconstructible description (e.g. overflowing geometry): nothing to run
  }
  {
    Mix mx(c.rseed);
    random_region(mx, &pool.region, mx.range(1, 12));
    random_region16(mx, &pool.region16, mx.range(1, 12));
  }
  // first use of every shared image happens here, on one thread, before any other thread exists
  {
    uint32_t px[16] = {0};
    pixman_image_t *scratch = pixman_image_create_bits(PIXMAN_a8r8g8b8, 4, 4, px, 16);
    for (auto &b : pool.im) {
      pixman_image_composite32(PIXMAN_OP_OVER, b->im, nullptr, scratch, 0, 0, 0, 0, 0, 0, 4, 4);
      pixman_image_composite32(PIXMAN_OP_OVER, pool.im[0]->im, b->im, scratch, 0, 0, 0, 0, 0, 0, 4, 4);
    }
    pixman_image_unref(scratch);
  }
  size_t T = c.th.size();
  int reps = ctx().replay.empty() ? 3 : 60;
  if (const char *e = getenv("VF_REPS")) reps = std::max(1, atoi(e)) * (ctx().replay.empty() ? 1 : 20);
  // The threads run first and the single-threaded reference afterwards: whatever the library initialises or caches lazily
  // on first use (per operator, per format, per implementation) is then first touched by concurrent threads, as it would
  // be in an application whose worker threads do all the drawing (seeded C16c).
  std::vector<std::vector<std::string>> all_got;
  for (int rep = 0; rep < reps; rep++) {
    std::vector<std::string> got(T);
    pthread_barrier_t bar;
    pthread_barrier_init(&bar, nullptr, (unsigned)T);
    std::vector<std::thread> ths;
    for (size_t i = 0; i < T; i++)
      ths.emplace_back([&, i] {
        pthread_barrier_wait(&bar);
        got[i] = run_program(c, c.th[i], pool);
      });
    for (auto &t : ths) t.join();
    pthread_barrier_destroy(&bar);
    all_got.push_back(got);
  }
  std::vector<std::string> alone(T);
  for (size_t i = 0; i < T; i++) alone[i] = run_program(c, c.th[i], pool);
  for (int rep = 0; rep < reps && v.ok; rep++)
    for (size_t i = 0; i < T; i++)
      if (all_got[(size_t)rep][i] != alone[i]) {
        v.fail(fmt("thread %d of %d (repetition %d): result %s differs from the same program run alone %s", (int)i, (int)T, rep, all_got[(size_t)rep][i].c_str(), alone[i].c_str()));
        break;
      }
  pixman_region32_fini(&pool.region);
  pixman_region_fini(&pool.region16);

  // classification
  int ns = (int)c.shared.size();
  std::vector<int> users((size_t)ns, 0);
  std::set<int> kinds;
  for (auto &t : c.th) {
    std::set<int> used;
    int npool = ns + (int)t.priv.size();
    for (auto &r : t.reqs) {
      int k = ((r.kind % Q_N) + Q_N) % Q_N;
      kinds.insert(k);
      if (k == Q_COMPOSITE || k == Q_TRAPS || k == Q_TRIS || k == Q_GLYPHS) {
        if (r.src >= 0 && r.src % npool < ns) used.insert(r.src % npool);
        if (k == Q_COMPOSITE && r.mask >= 0 && r.mask % npool < ns) used.insert(r.mask % npool);
      }
    }
    for (int u : used) users[(size_t)u]++;
  }
  bool shared2 = false;
  for (int i = 0; i < ns; i++)
    if (users[(size_t)i] >= 2) {
      shared2 = true;
      v.label(fmt("shared_%s", c.shared[(size_t)i].kind == 0 ? "bits" : c.shared[(size_t)i].kind == 1 ? "solid" : "gradient"));
    }
  v.nontrivial = T >= 2 && shared2;
  v.label(fmt("threads_%d", (int)T));
  for (int k : kinds) v.label(QN[k]);
  return v;
}

// ---------------------------------------------------------------- cold start
// The first drawing calls of a process are made by several threads at once.  Whatever the library sets up on first use
// process-wide (the implementation chain, CPU detection) must already exist or be created safely.  Each case runs in a
// forked child of a parent that never draws, so every case sees a cold library; the child exits non-zero on a digest
// mismatch, and ThreadSanitizer makes it exit non-zero on a race.
static TCase gen_cold() {
  TCase c = gen_case();
  c.shared.clear();
  int nt = (int)c.th.size();
  for (int i = 0; i < nt; i++) {
    Th &t = c.th[(size_t)i];
    if (t.priv.empty()) {
      GenOpts o;
      o.accessors = false;
      t.priv.push_back(gen_source(o, t.dst.bits.w, t.dst.bits.h, false));
    }
  }
  return c;
}
static Verdict run_cold(const TCase &c) {
  Verdict v;
  fflush(stdout);
  fflush(stderr);
  pid_t pid = fork();
  if (pid == 0) {
    g_cold = true;
    Verdict r = run_case(c);
    if (!r.ok) fprintf(stderr, "[cold child] %s\n", r.msg.c_str());
    _exit(r.ok ? 0 : 1);
  }
  int st = 0;
  waitpid(pid, &st, 0);
  if (!WIFEXITED(st) || WEXITSTATUS(st) != 0)
    v.fail(fmt("first drawing calls of a process issued by %d threads at once: child %s %d (1 = a thread's result differs from the single-threaded one, 78 = ThreadSanitizer report)", (int)c.th.size(),
               WIFEXITED(st) ? "exited with" : "killed by signal", WIFEXITED(st) ? WEXITSTATUS(st) : WTERMSIG(st)));
  v.nontrivial = c.th.size() >= 2;
  v.label(fmt("threads_%d", (int)c.th.size()));
  return v;
}

static void register_props() {
  add_prop<TCase>("threads", gen_case, run_case);
  add_prop<TCase>("coldstart", gen_cold, run_cold);
}
VF_MAIN()
