// C03: drawing touches only the composite region, and pixman_compute_composite_region reports exactly that region.
// Also hosts the pixman_image_fill_boxes / fill_rectangles part of C19 (equality with per-box compositing, locality).
#include "scene.hpp"
using namespace vf;
using namespace img;
using namespace scene;

// ---------------------------------------------------------------- the region the statement defines
static Boxes translate(const Boxes &b, int64_t dx, int64_t dy) {
  Boxes o;
  for (auto x : b) o.push_back({x.x1 + dx, x.y1 + dy, x.x2 + dx, x.y2 + dy});
  return o;
}
static bool clip_enabled(const SImg &s) { return s.has_clip && s.client_clip && s.source_clipping; }
// the clip of a source's alpha map is a source clip like the image's own (positioned through the map's origin)
static bool amap_clip_enabled(const SImg &s) { return s.kind == 0 && s.has_alpha_map && s.amap_has_clip && s.amap_client_clip && s.amap_source_clipping; }
static Boxes model_region(const Scene &sc) {
  const SImg &d = sc.dst;
  Boxes r{{sc.dx, sc.dy, (int64_t)sc.dx + sc.w, (int64_t)sc.dy + sc.h}};
  r = rr::combine(r, Boxes{{0, 0, d.bits.w, d.bits.h}}, rr::INTER);
  if (d.has_clip) r = rr::combine(r, d.clip, rr::INTER);
  if (d.has_alpha_map) r = rr::combine(r, Boxes{{d.ax, d.ay, (int64_t)d.ax + d.amap.w, (int64_t)d.ay + d.amap.h}}, rr::INTER);
  if (clip_enabled(sc.src)) r = rr::combine(r, translate(sc.src.clip, (int64_t)sc.dx - sc.sx, (int64_t)sc.dy - sc.sy), rr::INTER);
  if (amap_clip_enabled(sc.src)) r = rr::combine(r, translate(sc.src.amap_clip, (int64_t)sc.dx - sc.sx + sc.src.ax, (int64_t)sc.dy - sc.sy + sc.src.ay), rr::INTER);
  if (sc.has_mask) {
    const SImg &m = sc.mask_is_src ? sc.src : sc.mask;
    if (clip_enabled(m)) r = rr::combine(r, translate(m.clip, (int64_t)sc.dx - sc.mx, (int64_t)sc.dy - sc.my), rr::INTER);
    if (amap_clip_enabled(m)) r = rr::combine(r, translate(m.amap_clip, (int64_t)sc.dx - sc.mx + m.ax, (int64_t)sc.dy - sc.my + m.ay), rr::INTER);
  }
  return r;
}

// every bit of `im`'s storage that does not belong to a pixel (x,y) with (x-ox,y-oy)... in region must be unchanged
static std::string check_untouched(const Image &im, const Boxes &region, int ox, int oy) {
  pixman_format_code_t f = im.d.code();
  int BPP = bpp(f), st = im.d.stride();
  std::vector<uint8_t> allowed((size_t)st);
  for (int y = 0; y < im.d.h; y++) {
    std::fill(allowed.begin(), allowed.end(), 0);
    for (auto &b : region) {
      int64_t yy = (int64_t)y + oy;
      if (yy < b.y1 || yy >= b.y2) continue;
      int64_t x1 = std::max<int64_t>(0, b.x1 - ox), x2 = std::min<int64_t>(im.d.w, b.x2 - ox);
      for (int64_t x = x1; x < x2; x++) {
        int64_t bit0 = x * BPP, bit1 = bit0 + BPP;
        for (int64_t bit = bit0; bit < bit1;) {
          if ((bit & 7) == 0 && bit + 8 <= bit1) {
            allowed[(size_t)(bit >> 3)] = 0xff;
            bit += 8;
          } else {
            allowed[(size_t)(bit >> 3)] |= (uint8_t)(1 << (bit & 7));
            bit++;
          }
        }
      }
    }
    const uint8_t *now = im.rowp(y), *old = &im.before[(size_t)(im.rowp(y) - im.buf.p)];
    for (int b = 0; b < st; b++)
      if ((now[b] ^ old[b]) & ~allowed[(size_t)b])
        return fmt("row %d byte %d: %02x -> %02x (bits allowed to change: %02x) in %dx%d %s", y, b, old[b], now[b], allowed[(size_t)b], im.d.w, im.d.h, FORMATS[im.d.fmt].name);
  }
  // yv12-style extra storage does not exist for destinations; anything beyond stride*h is checked too
  for (size_t i = (size_t)st * im.d.h; i < im.buf.size; i++)
    if (im.buf.p[i] != im.before[i]) return fmt("byte %zu beyond the pixel rows modified", i);
  return "";
}

// ---------------------------------------------------------------- composite
struct TCase {
  Scene sc;
  int entry = 0;  // 0 composite32, 1 composite (16-bit), 2 also check compute_composite_region
  template <class A> void io(A &a) {
    a.f("sc", sc);
    a.f("entry", entry);
  }
};
static int64_t gen_off(int extent) {
  switch (pickw({6, 3, 1, 1})) {
  case 0: return R(-3, extent + 2);
  case 1: return R(-extent - 5, 2 * extent + 5);
  case 2: return pick<int64_t>({-32768, 32767, -32767, 32766, -1000, 1000});
  default: return R(-70000, 70000);
  }
}
static TCase gen_case() {
  TCase c;
  GenOpts o;
  o.maxw = 40;
  o.maxh = 12;
  o.alpha_maps = true;
  Scene &sc = c.sc;
  sc = gen_scene(o);
  // destination: any destination format incl. sub-byte and 24 bpp, small, padded
  SImg &d = sc.dst;
  if (coin(50)) d.bits.fmt = fmt_index(pick<pixman_format_code_t>({PIXMAN_a1, PIXMAN_a4, PIXMAN_r8g8b8, PIXMAN_a8, PIXMAN_r5g6b5, PIXMAN_a8r8g8b8, PIXMAN_x8r8g8b8, PIXMAN_r1g2b1, PIXMAN_c4, PIXMAN_g1, PIXMAN_b8g8r8}));
  d.bits.w = (int)R(1, 40);
  d.bits.h = (int)R(1, 12);
  d.bits.pad = pickw({3, 2, 1});
  if (coin(40)) {
    d.has_clip = 1;
    d.clip = gen_clip(d.bits.w, d.bits.h, 6);
  } else
    d.has_clip = 0;
  if (coin(20) && !is_float(d.bits.code())) {
    d.has_alpha_map = 1;
    d.amap = gen_bits(fmt_index(pick<pixman_format_code_t>({PIXMAN_a8, PIXMAN_a4, PIXMAN_a1, PIXMAN_a8r8g8b8})), 1, 1);
    d.amap.w = (int)R(1, d.bits.w + 2);
    d.amap.h = (int)R(1, d.bits.h + 2);
    d.ax = (int)R(-3, d.bits.w);
    d.ay = (int)R(-3, d.bits.h);
  } else
    d.has_alpha_map = 0;
  // request geometry: mostly overlapping the image (inside / straddling each edge), a minority wholly outside, zero
  // and huge sizes and 16-bit extremes
  int W = d.bits.w, H = d.bits.h;
  bool wild = coin(15);
  sc.dx = wild ? (int)gen_off(W) : (int)R(-3, W - 1);
  sc.dy = wild ? (int)gen_off(H) : (int)R(-2, H - 1);
  sc.w = coin(90) ? (int)R(wild ? 0 : 1, W + 6) : pick<int>({0, 65535, 40000, 1 << 20});
  sc.h = coin(90) ? (int)R(wild ? 0 : 1, H + 4) : pick<int>({0, 65535, 300});
  sc.sx = (int)gen_off(W);
  sc.sy = (int)gen_off(H);
  sc.mx = (int)gen_off(W);
  sc.my = (int)gen_off(H);
  // boxes that overlap the image, in destination space
  auto dest_boxes = [W, H](int maxn) {
    Boxes b;
    int n = (int)R(1, maxn);
    for (int i = 0; i < n; i++) {
      int64_t x1 = R(-2, W - 1), y1 = R(-2, H - 1);
      b.push_back({x1, y1, x1 + R(1, W + 2), y1 + R(1, H + 2)});
    }
    return b;
  };
  if (d.has_clip) d.clip = coin(85) ? dest_boxes(6) : gen_clip(W, H, 6);
  if (d.has_alpha_map) {
    d.ax = (int)R(-2, W - 1);
    d.ay = (int)R(-2, H - 1);
    d.amap.w = (int)R(1, W + 2);
    d.amap.h = (int)R(1, H + 2);
  }
  // sources: clips in all four (client_clip, source_clipping) combinations, positioned to overlap in destination space
  for (int k = 0; k < 2; k++) {
    SImg *s = k ? &sc.mask : &sc.src;
    if (s->kind != 0) continue;
    if (coin(45)) {
      s->has_clip = 1;
      int64_t ox = k ? (int64_t)sc.dx - sc.mx : (int64_t)sc.dx - sc.sx, oy = k ? (int64_t)sc.dy - sc.my : (int64_t)sc.dy - sc.sy;
      s->clip = coin(85) ? translate(dest_boxes(4), -ox, -oy) : gen_clip(W + 4, H + 4, 4);
      s->client_clip = coin(65);
      s->source_clipping = coin(65);
    } else
      s->has_clip = 0;
    s->has_alpha_map = 0;
    s->amap_has_clip = 0;
    // an alpha map with a clip of its own, origin with different x and y. (For a mask the library consults the map's clip
    // only when the mask image itself has a clip region set, enabled or not; a map clip on a clip-less mask is left out of
    // the domain — see DESIGN §9.)
    pixman_format_code_t sf = s->bits.code();
    if (coin(25) && !is_yuv(sf) && !is_float(sf) && ((k == 0 && !sc.mask_is_src) || s->has_clip)) {
      s->has_alpha_map = 1;
      s->amap = gen_bits(fmt_index(pick<pixman_format_code_t>({PIXMAN_a8, PIXMAN_a4, PIXMAN_a1, PIXMAN_a8r8g8b8})), 1, 1);
      s->amap.w = (int)R(1, W + 6);
      s->amap.h = (int)R(1, H + 6);
      s->ax = (int)R(-3, 4);
      s->ay = (int)R(-3, 4);
      if (coin(85)) {
        s->amap_has_clip = 1;
        int64_t ox = (k ? (int64_t)sc.dx - sc.mx : (int64_t)sc.dx - sc.sx) + s->ax, oy = (k ? (int64_t)sc.dy - sc.my : (int64_t)sc.dy - sc.sy) + s->ay;
        s->amap_clip = coin(85) ? translate(dest_boxes(3), -ox, -oy) : gen_clip(W + 4, H + 4, 3);
        s->amap_client_clip = coin(80);
        s->amap_source_clipping = coin(80);
      }
    }
  }
  // operators that change every pixel they touch carry most of the mass
  sc.op = coin(70) ? pick<int>({PIXMAN_OP_SRC, PIXMAN_OP_SRC, PIXMAN_OP_CLEAR, PIXMAN_OP_IN, PIXMAN_OP_ADD, PIXMAN_OP_OVER, PIXMAN_OP_XOR}) : sc.op;
  if (coin(35)) {
    sc.src = SImg();
    sc.src.kind = 1;
    sc.src.color = u32() | 0xff000000;
  }
  c.entry = pickw({5, 2, 4});
  return c;
}

static bool fits16(int64_t v) { return v >= INT16_MIN && v <= INT16_MAX; }

static Verdict run_case(const TCase &c) {
  Verdict v;
  const Scene &sc = c.sc;
  Built b;
  build(sc, b);
  if (!b.ok) {
    v.fail("image creation failed");
    return v;
  }
  Boxes R = model_region(sc);
  bool in16 = fits16(sc.sx) && fits16(sc.sy) && fits16(sc.mx) && fits16(sc.my) && fits16(sc.dx) && fits16(sc.dy) && sc.w <= 65535 && sc.h <= 65535 && sc.w >= 0 && sc.h >= 0;
  int entry = c.entry;
  if (!in16 && entry != 0) entry = 0;
  if (entry == 2) {
    pixman_region16_t reg;
    pixman_region_init(&reg);
    pixman_bool_t ret = pixman_compute_composite_region(&reg, b.s.im, b.mask_im, b.d.im, (int16_t)sc.sx, (int16_t)sc.sy, (int16_t)sc.mx, (int16_t)sc.my, (int16_t)sc.dx, (int16_t)sc.dy, (uint16_t)sc.w,
                                                         (uint16_t)sc.h);
    int n = 0;
    pixman_box16_t *bx = pixman_region_rectangles(&reg, &n);
    Boxes got;
    for (int i = 0; i < n; i++) got.push_back({bx[i].x1, bx[i].y1, bx[i].x2, bx[i].y2});
    if ((bool)ret != !R.empty()) v.fail(fmt("compute_composite_region returned %d but the intersection has %zu rectangles", (int)ret, R.size()));
    else if (ret) {
      if (rr::canon(got) != R) v.fail(fmt("compute_composite_region reports %zu rectangles, the intersection has %zu (first got (%lld,%lld)-(%lld,%lld))", got.size(), R.size(),
                                          got.empty() ? 0LL : (long long)got[0].x1, got.empty() ? 0LL : (long long)got[0].y1, got.empty() ? 0LL : (long long)got[0].x2, got.empty() ? 0LL : (long long)got[0].y2));
      else if (got != R) v.fail("compute_composite_region: right points but the region is not canonical: " + rr::canonical_defect(got));
    }
    pixman_region_fini(&reg);
    v.label("compute_region_checked");
  }
  if (entry == 1)
    pixman_image_composite((pixman_op_t)sc.op, b.s.im, b.mask_im, b.d.im, (int16_t)sc.sx, (int16_t)sc.sy, (int16_t)sc.mx, (int16_t)sc.my, (int16_t)sc.dx, (int16_t)sc.dy, (uint16_t)sc.w, (uint16_t)sc.h);
  else
    draw(sc, b);
  if (v.ok) {
    std::string d = check_untouched(*b.d.bits, R, 0, 0);
    if (!d.empty()) v.fail("destination changed outside the composite region: " + d);
  }
  if (v.ok && b.d.amap) {
    std::string d = check_untouched(*b.d.amap, R, sc.dst.ax, sc.dst.ay);
    if (!d.empty()) v.fail("destination alpha map changed outside the composite region: " + d);
  }
  if (v.ok && b.s.bits && memcmp(b.s.bits->before.data(), b.s.bits->buf.p, b.s.bits->buf.size) != 0) v.fail("source storage modified");
  if (v.ok && b.m.bits && memcmp(b.m.bits->before.data(), b.m.bits->buf.p, b.m.bits->buf.size) != 0) v.fail("mask storage modified");
  // from the drawing side: SRC with an opaque solid onto a plain packed destination must set every pixel of the region
  pixman_format_code_t df = sc.dst.bits.code();
  // (requests whose source coordinates leave the 16-bit range are dropped by design — C04 — so only moderate geometry)
  bool moderate = std::abs(sc.sx) < 16000 && std::abs(sc.sy) < 16000 && std::abs(sc.dx) < 16000 && std::abs(sc.dy) < 16000 && sc.w < 16000 && sc.h < 16000;
  if (v.ok && moderate && sc.op == PIXMAN_OP_SRC && sc.src.kind == 1 && !sc.has_mask && !sc.dst.has_alpha_map && is_narrow(df) && packed_rgb(df) && !sc.dst.accessors && !sc.dst.dither) {  // (a dithered store is not the plain truncation)
    uint32_t want = encode8888(df, sc.src.color), dm = defined_mask(df);
    for (auto &bx : R)
      for (int64_t y = bx.y1; y < bx.y2 && v.ok; y++)
        for (int64_t x = bx.x1; x < bx.x2 && v.ok; x++) {
          uint32_t got = raw_get(b.d.bits->rowp((int)y), bpp(df), (int)x);
          if ((got & dm) != (want & dm)) v.fail(fmt("pixel (%lld,%lld) lies in the composite region but was not drawn (SRC solid %08x): %x", (long long)x, (long long)y, sc.src.color, got & dm));
        }
    v.label("inside_drawn_checked");
  }
  if (acclog().bad) v.fail("accessor called with an address outside the pixel storage");
  // non-trivial: region non-empty, differs from the request rectangle, and has an edge strictly inside the image (or sub-byte unaligned edge)
  bool nt = false;
  if (!R.empty()) {
    Boxes req{{sc.dx, sc.dy, (int64_t)sc.dx + sc.w, (int64_t)sc.dy + sc.h}};
    bool differs = rr::canon(req) != R;
    bool inner_edge = false;
    for (auto &bx : R) inner_edge |= bx.x1 > 0 || bx.y1 > 0 || bx.x2 < sc.dst.bits.w || bx.y2 < sc.dst.bits.h;
    nt = differs && inner_edge;
    if (R.size() > 1) v.label("multi_rect_region");
  } else
    v.label("empty_region");
  v.nontrivial = nt;
  if (sc.dst.has_alpha_map) v.label("dest_alpha_map");
  if (clip_enabled(sc.src) || (sc.has_mask && clip_enabled(sc.mask_is_src ? sc.src : sc.mask))) v.label("source_clip_enabled");
  if (amap_clip_enabled(sc.src) || (sc.has_mask && amap_clip_enabled(sc.mask_is_src ? sc.src : sc.mask))) v.label("source_alpha_map_clip_enabled");
  if (bpp(df) < 8) v.label("subbyte_dest");
  return v;
}

// ---------------------------------------------------------------- fill_boxes / fill_rectangles (C19)
struct FCase {
  Bits dst;
  int has_clip = 0;
  Boxes clip;
  Boxes boxes;
  int op = 1;
  std::vector<int64_t> color;  // r g b a (16 bit)
  int use_rects = 0;
  template <class A> void io(A &a) {
    a.f("dst", dst);
    a.f("has_clip", has_clip);
    a.f("clip", clip);
    a.f("boxes", boxes);
    a.f("op", op);
    a.f("color", color);
    a.f("use_rects", use_rects);
  }
};
static FCase gen_fill() {
  FCase c;
  c.dst = gen_bits(coin(60) ? fmt_index(pick<pixman_format_code_t>({PIXMAN_a8r8g8b8, PIXMAN_x8r8g8b8, PIXMAN_a8b8g8r8, PIXMAN_x8b8g8r8, PIXMAN_b8g8r8a8, PIXMAN_b8g8r8x8, PIXMAN_r8g8b8a8, PIXMAN_r8g8b8x8,
                                                                      PIXMAN_r5g6b5, PIXMAN_b5g6r5, PIXMAN_a8, PIXMAN_a1, PIXMAN_a2r10g10b10, PIXMAN_x2r10g10b10}))
                             : gen_dst_format(true),
                   1, 1);
  c.dst.w = (int)R(1, 40);
  c.dst.h = (int)R(1, 12);
  // rows that end exactly on a 32-bit word (and on wider vector boundaries) without padding behind them: a fill loop that
  // touches "the next word" has nowhere to go but outside the storage (seeded C04c)
  if (coin(30)) {
    int per_word = std::max(1, 32 / bpp(c.dst.code()));
    c.dst.w = per_word * (int)R(1, 4);
    if (coin(70)) c.dst.pad = 0;
    if (coin(60)) c.dst.fence = 1;
  }
  if (coin(40)) {
    c.has_clip = 1;
    c.clip = gen_clip(c.dst.w, c.dst.h, 4);
  }
  int w = c.dst.w, h = c.dst.h;
  bool whole = coin(20);
  c.boxes = vec(8, [w, h, whole] {
    if (whole) return Box{0, 0, w, h};
    Box b;
    b.x1 = R(-4, w + 2);
    b.y1 = R(-3, h + 2);
    b.x2 = b.x1 + (coin(8) ? 0 : R(1, w + 6));
    b.y2 = b.y1 + (coin(8) ? 0 : R(1, h + 4));
    return b;
  });
  c.op = coin(60) ? pick<int>({PIXMAN_OP_SRC, PIXMAN_OP_OVER, PIXMAN_OP_CLEAR, PIXMAN_OP_ADD}) : (int)R(PIXMAN_OP_CLEAR, PIXMAN_OP_SATURATE);
  for (int i = 0; i < 4; i++) c.color.push_back(coin(55) ? pick<int64_t>({0, 0xffff, 0x8000, 0xff00, 0xff80, 0x00ff, 0x0100}) : R(0, 0xffff));
  if (coin(45)) c.color[3] = 0xffff;
  c.use_rects = coin(40);
  if (c.use_rects && !c.boxes.empty() && coin(20)) {
    // rectangle16 carries an unsigned 16-bit size: far edges beyond 32767 (x + width does not fit int16)
    Box &b = c.boxes[(size_t)R(0, (int64_t)c.boxes.size() - 1)];
    if (coin(50)) b.x2 = b.x1 + R(32768, 65535);
    if (coin(50)) b.y2 = b.y1 + R(32768, 65535);
  }
  return c;
}
static Verdict run_fill(const FCase &c) {
  Verdict v;
  auto d1 = make_image(c.dst), d2 = make_image(c.dst);
  if (!d1->im || !d2->im) {
    v.fail("create_bits failed");
    return v;
  }
  for (Image *im : {d1.get(), d2.get()})
    if (c.has_clip) {
      std::vector<pixman_box32_t> bx;
      for (auto &b : c.clip) bx.push_back({(int32_t)b.x1, (int32_t)b.y1, (int32_t)b.x2, (int32_t)b.y2});
      pixman_region32_t r;
      pixman_region32_init_rects(&r, bx.data(), (int)bx.size());
      pixman_image_set_clip_region32(im->im, &r);
      pixman_region32_fini(&r);
    }
  pixman_color_t col = {(uint16_t)c.color[0], (uint16_t)c.color[1], (uint16_t)c.color[2], (uint16_t)c.color[3]};
  pixman_bool_t ret;
  if (c.use_rects) {
    std::vector<pixman_rectangle16_t> rs;
    for (auto &b : c.boxes) rs.push_back({(int16_t)b.x1, (int16_t)b.y1, (uint16_t)(b.x2 - b.x1), (uint16_t)(b.y2 - b.y1)});
    ret = pixman_image_fill_rectangles((pixman_op_t)c.op, d1->im, &col, (int)rs.size(), rs.data());
  } else {
    std::vector<pixman_box32_t> bs;
    for (auto &b : c.boxes) bs.push_back({(int32_t)b.x1, (int32_t)b.y1, (int32_t)b.x2, (int32_t)b.y2});
    ret = pixman_image_fill_boxes((pixman_op_t)c.op, d1->im, &col, (int)bs.size(), bs.data());
  }
  if (!ret) v.fail("fill_boxes/fill_rectangles returned FALSE without an allocation failure");
  // reference: a solid image of that colour composited over each box in order
  pixman_image_t *solid = pixman_image_create_solid_fill(&col);
  for (auto &b : c.boxes)
    if (b.x2 > b.x1 && b.y2 > b.y1) pixman_image_composite32((pixman_op_t)c.op, solid, nullptr, d2->im, 0, 0, 0, 0, (int)b.x1, (int)b.y1, (int)(b.x2 - b.x1), (int)(b.y2 - b.y1));
  pixman_image_unref(solid);
  // locality (every bit outside boxes ∩ bounds ∩ clip unchanged)
  Boxes R = rr::combine(c.boxes, Boxes{{0, 0, c.dst.w, c.dst.h}}, rr::INTER);
  if (c.has_clip) R = rr::combine(R, c.clip, rr::INTER);
  std::string d = check_untouched(*d1, R, 0, 0);
  if (!d.empty()) v.fail("fill_boxes changed storage outside boxes ∩ bounds ∩ clip: " + d);
  // equality with compositing on the defined bits
  pixman_format_code_t df = c.dst.code();
  if (v.ok) {
    if (is_float(df)) {
      if (memcmp(d1->buf.p, d2->buf.p, d1->buf.size) != 0) v.fail("fill_boxes differs from compositing a solid over each box (float destination)");
    } else {
      uint32_t dm = defined_mask(df);
      for (int y = 0; y < c.dst.h && v.ok; y++)
        for (int x = 0; x < c.dst.w && v.ok; x++) {
          uint32_t a = raw_get(d1->rowp(y), bpp(df), x), b = raw_get(d2->rowp(y), bpp(df), x);
          if ((a & dm) != (b & dm))
            v.fail(fmt("fill_%s(op %d, colour r%04x g%04x b%04x a%04x, %s) differs from compositing a solid over each box at (%d,%d): %x vs %x", c.use_rects ? "rectangles" : "boxes", c.op,
                       (unsigned)c.color[0], (unsigned)c.color[1], (unsigned)c.color[2], (unsigned)c.color[3], FORMATS[c.dst.fmt].name, x, y, a & dm, b & dm));
        }
    }
  }
  bool cut = false;
  for (auto &b : c.boxes) cut |= b.x1 < 0 || b.y1 < 0 || b.x2 > c.dst.w || b.y2 > c.dst.h;
  bool shortcut_op = c.op == PIXMAN_OP_SRC || c.op == PIXMAN_OP_CLEAR || (c.op == PIXMAN_OP_OVER && c.color[3] >= 0xff00);
  v.nontrivial = !R.empty() && (cut || c.has_clip) && shortcut_op;
  if (shortcut_op) v.label("shortcut_candidate");
  if (cut) v.label("box_cut_by_image_edge");
  if (c.boxes.size() > 6) v.label("more_than_6_boxes");
  return v;
}

static void register_props() {
  add_prop<TCase>("composite", gen_case, run_case);
  add_prop<FCase>("fill", gen_fill, run_fill);
}
VF_MAIN()
