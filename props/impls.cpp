// C02: every implementation chain produces bit-identical results (DESIGN.md §4 C02).  The same serialised request is
// rendered by one worker process per PIXMAN_DISABLE value; results (masked for undefined bits) must be identical.
// Also pixman_fill / pixman_blt: identical effect, or FALSE with nothing changed.
#include "scene.hpp"
using namespace vf;
using namespace img;
using namespace scene;

extern "C" {
struct pixman_implementation_t;
extern __thread struct VerifLookup {
  int depth;
  void *func;
  unsigned long count;
  unsigned long iters;
} pixman_verif_last_lookup;
int pixman_verif_chain_length(pixman_implementation_t *toplevel);
pixman_implementation_t *_pixman_internal_only_get_implementation(void);
}

static int chain_len() { return pixman_verif_chain_length(_pixman_internal_only_get_implementation()); }

// ---------------------------------------------------------------- scenes
static std::string render_scene(const Scene &sc) {
  if (sc.twin_primer) {
    // the same request with a plain mask (no transform, nearest, no repeat) is drawn first: the implementations remember
    // recently resolved (operator, formats, flags) combinations per thread, and what was remembered for the plain mask must
    // not be used for the transformed one (seeded C02u)
    Scene a = sc;
    a.twin_primer = 0;
    a.mask.has_transform = 0;
    a.mask.filter = 0;
    a.mask.repeat = 0;
    Built pb;
    build(a, pb);
    if (pb.ok) draw(a, pb);
  }
  Built b;
  build(sc, b);
  if (!b.ok) return "BUILD-FAILED";
  unsigned long before = pixman_verif_last_lookup.count;
  pixman_verif_last_lookup.iters = 0;
  draw(sc, b);
  std::string r = digest_dest(b);
  // source and mask must not be modified
  if (b.s.bits && memcmp(b.s.bits->before.data(), b.s.bits->buf.p, b.s.bits->buf.size) != 0) r += "|SRC-MODIFIED";
  if (b.m.bits && memcmp(b.m.bits->before.data(), b.m.bits->buf.p, b.m.bits->buf.size) != 0) r += "|MASK-MODIFIED";
  if (acclog().bad) r += "|ACCESSOR-OUT-OF-STORAGE";
  // trace: chain length, and the level/function the lookup resolved to (0 lookups = request dropped before lookup)
  char t[96];
  // (the iterator hash uses levels counted from the bottom of the chain, so it is comparable across chains)
  snprintf(t, sizeof t, " T%d:%d:%lx", chain_len(), pixman_verif_last_lookup.count != before ? pixman_verif_last_lookup.depth : -1,
           pixman_verif_last_lookup.count != before
               ? (unsigned long)((((uintptr_t)pixman_verif_last_lookup.func - (uintptr_t)&pixman_image_composite32) & 0xffffff) ^ (pixman_verif_last_lookup.iters << 24))
               : 0ul);
  return r + t;
}

static int expected_chain_len(const std::string &cfg) {
  int n = 6;  // noop ssse3 sse2 mmx fast general on this host
  for (const char *k : {"fast", "mmx", "sse2", "ssse3"}) {
    // whole-word match
    std::stringstream ss(cfg);
    std::string w;
    bool hit = false;
    while (ss >> w) hit |= (w == k);
    if (hit) n--;
  }
  return n;
}

static Verdict judge_scene(const Scene &sc, const std::vector<std::string> &res, const std::vector<std::string> &cfgs) {
  Verdict v;
  std::vector<std::string> dig, trace;
  for (auto &r : res) {
    auto sp = r.find(' ');
    dig.push_back(r.substr(0, sp));
    trace.push_back(sp == std::string::npos ? "" : r.substr(sp + 1));
  }
  size_t ref = 0;
  for (size_t i = 0; i < cfgs.size(); i++)
    if (cfgs[i] == "fast mmx sse2 ssse3") ref = i;
  std::set<std::string> levels;
  for (size_t i = 0; i < res.size(); i++) {
    if (dig[i].find('|') != std::string::npos || dig[i] == "BUILD-FAILED" || dig[i] == "PARSE-ERROR") {
      v.fail(fmt("PIXMAN_DISABLE=\"%s\": %s", cfgs[i].c_str(), dig[i].c_str()));
      return v;
    }
    if (dig[i] != dig[ref]) {
      v.fail(fmt("destination differs between PIXMAN_DISABLE=\"%s\" (%s, %s) and the general-only chain (%s, %s): op %d %s/%s/%s %dx%d", cfgs[i].c_str(), dig[i].c_str(), trace[i].c_str(),
                 dig[ref].c_str(), trace[ref].c_str(), sc.op, sc.src.kind == 0 ? FORMATS[sc.src.bits.fmt].name : "nonbits",
                 sc.has_mask ? (sc.mask_is_src ? "=src" : (sc.mask.kind == 0 ? FORMATS[sc.mask.bits.fmt].name : "nonbits")) : "-", FORMATS[sc.dst.bits.fmt].name, sc.w, sc.h));
      // known S18: a 1x1 repeating bits image of a wide format (10 bpc, sRGB, float) is a "solid" for the fast paths
      // (8-bit pipeline) but makes the general path run in floating point
      for (const SImg *im : {&sc.src, &sc.mask}) {
        if (im == &sc.mask && (!sc.has_mask || sc.mask_is_src)) continue;
        if (im->kind == 0 && im->bits.w == 1 && im->bits.h == 1 && im->repeat != 0 && !is_narrow(im->bits.code())) v.known = "S18";
      }
      // ... and an opaque mask (no alpha channel) is dropped from the fast-path lookup (8-bit path chosen) but still
      // handed to the general path, where its wide format selects the float pipeline
      if (sc.has_mask && !sc.mask_is_src && sc.mask.kind == 0 && !is_narrow(sc.mask.bits.code()) && !has_alpha(sc.mask.bits.code()) && !sc.mask.component_alpha) v.known = "S18";
      return v;
    }
    // the chain the worker runs must be the one that was asked for (environment parser, constructor)
    int len = 0, depth = -2;
    unsigned long fn = 0;
    if (sscanf(trace[i].c_str(), "T%d:%d:%lx", &len, &depth, &fn) == 3) {
      if (cfgs[i].find("wholeops") == std::string::npos || true) {
        if (len != expected_chain_len(cfgs[i])) {
          v.fail(fmt("PIXMAN_DISABLE=\"%s\": implementation chain has %d levels, expected %d", cfgs[i].c_str(), len, expected_chain_len(cfgs[i])));
          return v;
        }
      }
      // level counted from the bottom (general = 0) so that it is comparable across chains of different length
      if (depth >= 0) levels.insert(std::to_string(len - 1 - depth) + ":" + std::to_string(fn));
    }
  }
  v.nontrivial = levels.size() >= 2;  // at least two workers resolved the request to different (level, function) pairs
  if (levels.empty()) v.label("request_dropped_before_lookup");
  v.label(fmt("distinct_paths_%zu", std::min<size_t>(levels.size(), 4)));
  if (sc.src.has_transform) v.label("transformed");
  if (sc.has_mask) v.label("masked");
  if (sc.twin_primer) v.label("preceded_by_plain_mask_twin");
  if (sc.mask_shares_bits) v.label("pixbuf_pair");
  return v;
}

// ---------------------------------------------------------------- fill / blt
struct FBCase {
  int kind = 0;  // 0 fill, 1 blt
  int bpp = 32, dbpp = 32;
  int w = 8, h = 2, stride_words = 4, sstride_words = 4;
  int x = 0, y = 0, fw = 1, fh = 1, sx = 0, sy = 0;
  int align = 0;  // byte offset of the first word inside the allocation (multiple of 4)
  uint32_t filler = 0;
  uint64_t seed = 0;
  template <class A> void io(A &a) {
    a.f("kind", kind);
    a.f("bpp", bpp);
    a.f("dbpp", dbpp);
    a.f("w", w);
    a.f("h", h);
    a.f("stride_words", stride_words);
    a.f("sstride_words", sstride_words);
    a.f("x", x);
    a.f("y", y);
    a.f("fw", fw);
    a.f("fh", fh);
    a.f("sx", sx);
    a.f("sy", sy);
    a.f("align", align);
    a.f("filler", filler);
    a.f("seed", seed);
  }
};
static FBCase gen_fb() {
  FBCase c;
  c.kind = coin(50);
  c.bpp = pick<int>({1, 4, 8, 16, 24, 32, 32, 16, 8, 64, 128, 2, 12});
  c.dbpp = c.kind && coin(25) ? pick<int>({8, 16, 24, 32}) : c.bpp;
  c.w = (int)R(1, 130);
  c.h = (int)R(1, 6);
  int maxbpp = std::max(c.bpp, c.dbpp);
  c.stride_words = (c.w * maxbpp + 31) / 32 + (int)R(0, 2);
  c.sstride_words = (c.w * maxbpp + 31) / 32 + (int)R(0, 2);
  c.fw = (int)R(0, c.w);
  c.fh = (int)R(0, c.h);
  c.x = (int)R(0, c.w - c.fw);
  c.y = (int)R(0, c.h - c.fh);
  c.sx = (int)R(0, c.w - c.fw);
  c.sy = (int)R(0, c.h - c.fh);
  c.align = (int)R(0, 3) * 4;
  c.filler = coin(30) ? pick<uint32_t>({0u, 0xffffffffu, 0x12345678u, 0x80000001u, 0xff00ff00u}) : u32();
  c.seed = seed64();
  return c;
}
// expected effect of fill/blt computed independently; returns result line
static std::string render_fb(const FBCase &c) {
  size_t dbytes = (size_t)c.stride_words * 4 * c.h, sbytes = (size_t)c.sstride_words * 4 * c.h;
  std::vector<uint32_t> dalloc(dbytes / 4 + 8), salloc(sbytes / 4 + 8);
  Mix mx(c.seed);
  for (auto &x : dalloc) x = mx.u32();
  for (auto &x : salloc) x = mx.u32();
  uint32_t *dst = dalloc.data() + c.align / 4, *src = salloc.data() + c.align / 4;
  std::vector<uint32_t> before = dalloc;
  pixman_bool_t ret;
  if (c.kind == 0) ret = pixman_fill(dst, c.stride_words, c.bpp, c.x, c.y, c.fw, c.fh, c.filler);
  else ret = pixman_blt(src, dst, c.sstride_words, c.stride_words, c.bpp, c.dbpp, c.sx, c.sy, c.x, c.y, c.fw, c.fh);
  // classify the effect against the specification (bit granularity)
  std::string verdict = "OK";
  const uint8_t *nb = (const uint8_t *)dalloc.data(), *ob = (const uint8_t *)before.data();
  bool changed = memcmp(nb, ob, dalloc.size() * 4) != 0;
  if (!ret) {
    if (changed) verdict = "FALSE-BUT-CHANGED";
    else verdict = "FALSE";
  } else {
    // expected image: start from `before`, set the rectangle's bits
    std::vector<uint32_t> want = before;
    uint8_t *wb = (uint8_t *)(want.data() + c.align / 4);
    const uint8_t *sb = (const uint8_t *)src;
    int BPP = c.kind == 0 ? c.bpp : c.dbpp;
    if (BPP == 1 || BPP == 4 || BPP == 8 || BPP == 16 || BPP == 24 || BPP == 32) {
      for (int yy = 0; yy < c.fh; yy++)
        for (int xx = 0; xx < c.fw; xx++) {
          uint32_t val;
          if (c.kind == 0) val = c.filler & img::fieldmask(BPP);
          else val = img::raw_get(sb + (size_t)(c.sy + yy) * c.sstride_words * 4, c.bpp, c.sx + xx);
          img::raw_put(wb + (size_t)(c.y + yy) * c.stride_words * 4, BPP, c.x + xx, val);
        }
      if (memcmp(want.data(), dalloc.data(), dalloc.size() * 4) != 0) {
        // where?
        size_t i = 0;
        const uint8_t *w8 = (const uint8_t *)want.data();
        while (i < dalloc.size() * 4 && w8[i] == nb[i]) i++;
        verdict = fmt("TRUE-BUT-WRONG@byte%zu(got_%02x_want_%02x)", i - c.align, nb[i], w8[i]);
      }
    } else
      verdict = changed || true ? "TRUE-FOR-UNSUPPORTED-DEPTH" : "OK";
  }
  // digest of the resulting memory
  uint64_t h = 1469598103934665603ULL;
  for (size_t i = 0; i < dalloc.size() * 4; i++) h = (h ^ nb[i]) * 1099511628211ULL;
  return fmt("%s %d %016llx T%d", verdict.c_str(), (int)ret, (unsigned long long)h, chain_len());
}
static Verdict judge_fb(const FBCase &c, const std::vector<std::string> &res, const std::vector<std::string> &cfgs) {
  Verdict v;
  std::string first_true;
  int n_true = 0, n_false = 0;
  for (size_t i = 0; i < res.size(); i++) {
    char verdict[128];
    int ret = 0, len = 0;
    unsigned long long h = 0;
    if (sscanf(res[i].c_str(), "%127s %d %llx T%d", verdict, &ret, &h, &len) != 4) {
      v.fail("bad worker reply: " + res[i]);
      return v;
    }
    std::string vd = verdict;
    if (vd != "OK" && vd != "FALSE") {
      v.fail(fmt("%s(bpp %d->%d x=%d w=%d y=%d h=%d stride %d align %d) under PIXMAN_DISABLE=\"%s\": %s", c.kind ? "pixman_blt" : "pixman_fill", c.bpp, c.dbpp, c.x, c.fw, c.y, c.fh,
                 c.stride_words, c.align, cfgs[i].c_str(), vd.c_str()));
      return v;
    }
    if (ret) {
      n_true++;
      if (first_true.empty()) first_true = fmt("%llx", h);
      else if (first_true != fmt("%llx", h)) {
        v.fail(fmt("%s: two implementations returned TRUE with different memory contents (PIXMAN_DISABLE=\"%s\")", c.kind ? "pixman_blt" : "pixman_fill", cfgs[i].c_str()));
        return v;
      }
    } else
      n_false++;
    if (len != expected_chain_len(cfgs[i])) {
      v.fail(fmt("PIXMAN_DISABLE=\"%s\": chain has %d levels, expected %d", cfgs[i].c_str(), len, expected_chain_len(cfgs[i])));
      return v;
    }
  }
  v.nontrivial = n_true > 0 && ((c.x * c.bpp) % 128 != 0 || (c.fw * c.bpp) % 128 != 0) && c.fw > 0 && c.fh > 0;
  v.label(c.kind ? "blt" : "fill");
  v.label(fmt("bpp%d", c.bpp));
  if (n_true && n_false) v.label("some_chains_return_false");
  if (!n_true) v.label("all_false");
  return v;
}

static void register_props() {
  add_worker_prop<Scene>(
      "scene",
      [] {
        if (coin(70)) {
          Scene sc = gen_plain_scene(300, 8);
          if (sc.has_mask && !sc.mask_is_src && !sc.mask_shares_bits && sc.mask.kind == 0 && sc.src.kind == 0 && sc.src.has_transform && coin(30)) {
            // the mask is placed exactly like the source (same size, transform, filter, repeat, origin), and the request is
            // preceded by its twin with a plain mask
            sc.mask.bits.w = sc.src.bits.w;
            sc.mask.bits.h = sc.src.bits.h;
            sc.mask.has_transform = 1;
            sc.mask.m = sc.src.m;
            sc.mask.filter = sc.src.filter;
            sc.mask.kw = sc.src.kw, sc.mask.kh = sc.src.kh, sc.mask.kbx = sc.src.kbx, sc.mask.kby = sc.src.kby;
            sc.mask.kseed = sc.src.kseed, sc.mask.kneg = sc.src.kneg, sc.mask.ksum = sc.src.ksum;
            sc.mask.repeat = sc.src.repeat;
            sc.mx = sc.sx;
            sc.my = sc.sy;
            sc.twin_primer = 1;
          }
          return sc;
        }
        GenOpts o;
        o.maxw = 300;
        o.maxh = 8;
        Scene sc = gen_scene(o);
        // dithering is not part of this property's quantifier, and it is applied by the general floating-point path only
        // (the special-case paths never dither, by design): not generated here
        sc.dst.dither = 0;
        return sc;
      },
      render_scene, judge_scene);
  add_worker_prop<FBCase>("fillblt", gen_fb, render_fb, judge_fb);
}
VF_MAIN()
