// C04: no access outside the pixel storage the caller described.  Scenes on exactly sized buffers (malloc under ASan, or
// flush against PROT_NONE pages) with edge-hugging and extreme transforms, every filter/repeat, huge and tiny images,
// requests far outside.  A crash / sanitizer report is the violation; in addition nothing outside the C03 region may
// change.  Built three ways: rapidcheck+plain (guard pages), rapidcheck+ASan, libFuzzer+ASan (same generator decoding
// the fuzzer's bytes).  Run once per implementation chain (PIXMAN_DISABLE in the job's environment).
#include "scene.hpp"
using namespace vf;
using namespace img;
using namespace scene;

struct OCase {
  Scene sc;
  template <class A> void io(A &a) { a.f("sc", sc); }
};

static Boxes translate(const Boxes &b, int64_t dx, int64_t dy) {
  Boxes o;
  for (auto x : b) o.push_back({x.x1 + dx, x.y1 + dy, x.x2 + dx, x.y2 + dy});
  return o;
}
static bool clip_enabled(const SImg &s) { return s.has_clip && s.client_clip && s.source_clipping; }
static Boxes model_region(const Scene &sc) {
  const SImg &d = sc.dst;
  Boxes r{{sc.dx, sc.dy, (int64_t)sc.dx + sc.w, (int64_t)sc.dy + sc.h}};
  r = rr::combine(r, Boxes{{0, 0, d.bits.w, d.bits.h}}, rr::INTER);
  if (d.has_clip) r = rr::combine(r, d.clip, rr::INTER);
  if (d.has_alpha_map) r = rr::combine(r, Boxes{{d.ax, d.ay, (int64_t)d.ax + d.amap.w, (int64_t)d.ay + d.amap.h}}, rr::INTER);
  if (clip_enabled(sc.src)) r = rr::combine(r, translate(sc.src.clip, (int64_t)sc.dx - sc.sx, (int64_t)sc.dy - sc.sy), rr::INTER);
  if (sc.has_mask) {
    const SImg &m = sc.mask_is_src ? sc.src : sc.mask;
    if (clip_enabled(m)) r = rr::combine(r, translate(m.clip, (int64_t)sc.dx - sc.mx, (int64_t)sc.dy - sc.my), rr::INTER);
  }
  return r;
}

// transform whose first or last sample lands within a hair of a source edge
static void edge_hug(SImg &s, int sx, int sy, int w, int h) {
  s.has_transform = 1;
  auto scale = [] {
    return coin(40) ? pick<int64_t>({65536, 32768, 131072, 98304, 43691, 21845, 196608, 16384, 65535, 65537, 262144, -65536, -32768, -131072})
                    : (coin(50) ? R(3000, 400000) : -R(3000, 400000));
  };
  int64_t m00 = scale(), m11 = coin(60) ? m00 : scale();
  auto solve = [](int64_t m, int start, int n, int size) -> int64_t {
    // want m*(start + k + 0.5) + t ~= target for k = 0 (first) or n-1 (last)
    int k = coin(50) ? 0 : n - 1;
    int64_t target_px2 = pick<int64_t>({0, 1, 2, 2 * (int64_t)size, 2 * (int64_t)size - 1, 2 * (int64_t)size - 2, 2 * (int64_t)size + 1, -1});  // in half pixels
    int64_t target = target_px2 * 32768 + pick<int64_t>({0, 0, 1, -1, 2, -2, 16384, -16384, 32767, -32767});
    // position (fixed) = m * (2*(start+k)+1) / 2  (m is 16.16 per pixel)
    __int128 pos = (__int128)m * (2 * ((int64_t)start + k) + 1) / 2;
    __int128 t = (__int128)target - pos;
    if (t > INT32_MAX) t = INT32_MAX;
    if (t < INT32_MIN) t = INT32_MIN;
    return (int64_t)t;
  };
  s.m = {m00, 0, solve(m00, sx, w, s.bits.w), 0, m11, solve(m11, sy, h, s.bits.h), 0, 0, 65536};
}

static std::vector<int64_t> extreme_transform() {
  auto e = [] {
    switch (pickw({3, 3, 2, 2})) {
    case 0: return pick<int64_t>({0, 1, -1, INT32_MAX, INT32_MIN, INT32_MAX - 1, 65536, -65536});
    case 1: {
      int64_t v = (int64_t)1 << R(0, 31);
      if (v > INT32_MAX) v = INT32_MAX;
      return coin(50) ? v : -v;
    }
    case 2: return R(INT32_MIN, INT32_MAX);
    default: return R(-300000, 300000);
    }
  };
  std::vector<int64_t> m(9);
  for (auto &x : m) x = e();
  if (coin(50)) {
    m[6] = 0;
    m[7] = 0;
    m[8] = 65536;
  }
  return m;
}

static OCase gen_case() {
  OCase c;
  GenOpts o;
  o.maxw = 70;
  o.maxh = 5;
  o.gradients = true;
  Scene &sc = c.sc;
  sc = coin(50) ? gen_plain_scene(70, 5) : gen_scene(o);
  // exactly sized storage: no stride padding most of the time, fences often
  for (SImg *s : {&sc.src, &sc.mask, &sc.dst}) {
    if (s->kind != 0) continue;
    if (coin(70)) s->bits.pad = 0;
    s->bits.fence = pickw({3, 5, 2});
    if (s->has_alpha_map) s->amap.fence = pickw({3, 5, 2});
  }
  for (int k = 0; k < 2; k++) {
    SImg &s = k ? sc.mask : sc.src;
    if (k && (!sc.has_mask || sc.mask_is_src)) continue;
    if (s.kind != 0) continue;
    int x0 = k ? sc.mx : sc.sx, y0 = k ? sc.my : sc.sy;
    switch (pickw({30, 35, 12, 8, 15})) {
    case 0:
      // untransformed: make the request end flush with the image's right/bottom edge (over-reads of vector tails and
      // "load the next word early" loops live there), preferably with the row ending on a word/vector boundary
      if (!s.has_transform && !is_yuv(s.bits.code()) && coin(60)) {
        int x0p = std::max(0, x0), y0p = std::max(0, y0);
        if (k) {
          sc.mx = x0p;
          sc.my = y0p;
        } else {
          sc.sx = x0p;
          sc.sy = y0p;
        }
        s.bits.w = x0p + sc.w;
        s.bits.h = y0p + sc.h;
        s.bits.pad = 0;
        s.repeat = 0;
        if (coin(60)) {
          // widen the request so that the row's end is aligned to 32/64/128 bits
          int BPPs = bpp(s.bits.code());
          int unit = pick<int>({32, 64, 128}) / (BPPs >= 32 ? 32 : BPPs);
          if (BPPs < 32 && unit < 1) unit = 1;
          if (BPPs == 24) unit = 4;
          int tot = ((s.bits.w + unit - 1) / unit) * unit;
          sc.w += tot - s.bits.w;
          s.bits.w = tot;
        }
      }
      break;
    case 1:
      // edge hugging on formats with specialised fetchers
      if (coin(70)) s.bits.fmt = fmt_index(pick<pixman_format_code_t>({PIXMAN_a8r8g8b8, PIXMAN_x8r8g8b8, PIXMAN_r5g6b5, PIXMAN_a8}));
      if (is_yuv(s.bits.code())) break;
      // (sources of 64 pixels and more are read in place by the repeating scaled fast paths; narrower ones are first
      // replicated into a scratch row)
      s.bits.w = coin(30) ? (int)R(1, 3) : coin(25) ? (int)R(64, 140) : (int)R(1, 40);
      s.bits.h = coin(30) ? (int)R(1, 3) : (int)R(1, 8);
      edge_hug(s, x0, y0, sc.w, sc.h);
      s.filter = pickw({5, 6, 1, 2, 1, 1, 1});
      s.repeat = (int)R(0, 3);
      if (s.bits.w >= 64 && coin(60)) {
        // the shape of the repeating scaled fast paths: 8888/565, positive integer or half-integer scale, NORMAL repeat,
        // nearest/bilinear, SRC/OVER onto 8888/565 -- with the first or last sample exactly on the last column (the pixel
        // "after" it is column 0, not the memory behind the row) and the storage ending flush against a fence
        s.bits.fmt = fmt_index(pick<pixman_format_code_t>({PIXMAN_a8r8g8b8, PIXMAN_a8r8g8b8, PIXMAN_x8r8g8b8, PIXMAN_r5g6b5}));
        s.bits.h = (int)R(1, 2);
        s.bits.pad = 0;
        s.bits.fence = coin(80) ? 1 : 2;
        s.bits.neg = 0;
        s.repeat = coin(75) ? 1 : (int)R(0, 3);
        s.filter = pickw({3, 7});
        int64_t a = pick<int64_t>({65536, 131072, 196608, 98304, 32768, 262144});
        int kk = coin(50) ? 0 : sc.w - 1;  // which sample of the row is put on the edge
        // nearest samples pixel floor(p - e), bilinear the pair around p - 1/2: put p - 1/2 (or p) on column w-1 / w-2 exactly
        int64_t target = ((int64_t)s.bits.w - pick<int64_t>({1, 1, 2, 0})) * 65536 + (s.filter == 1 ? 32768 : pick<int64_t>({0, 32768, 1}));
        int64_t pos = a * (2 * ((int64_t)x0 + kk) + 1) / 2;
        s.m = {a, 0, target - pos, 0, coin(60) ? a : 65536, s.m[5], 0, 0, 65536};
        if (k == 0) {  // (the source, not the mask)
          sc.op = pick<int>({PIXMAN_OP_SRC, PIXMAN_OP_OVER, PIXMAN_OP_OVER, PIXMAN_OP_ADD});
          sc.dst.bits.fmt = fmt_index(pick<pixman_format_code_t>({PIXMAN_a8r8g8b8, PIXMAN_x8r8g8b8, PIXMAN_r5g6b5}));
        }
      }
      break;
    case 2:
      s.has_transform = 1;
      s.m = extreme_transform();
      s.filter = pickw({4, 4, 1, 1});
      break;
    case 3:
      // very wide / very tall single-row images (beyond 32767)
      if (!is_yuv(s.bits.code()) && bpp(s.bits.code()) <= 32) {
        if (coin(50)) {
          s.bits.w = pick<int>({32767, 32768, 40000, 65536, 70000});
          s.bits.h = 1;
        } else {
          s.bits.w = 1;
          s.bits.h = pick<int>({32767, 32768, 40000});
        }
        s.bits.pad = 0;
      }
      break;
    default:
      // request offsets far away
      if (k) {
        sc.mx = (int)pick<int64_t>({-32768, 32767, -100000, 100000, 1 << 30, -(1 << 30), INT32_MAX - 100, INT32_MIN + 100});
        sc.my = (int)R(-40000, 40000);
      } else {
        sc.sx = (int)pick<int64_t>({-32768, 32767, -100000, 100000, 1 << 30, -(1 << 30), INT32_MAX - 100, INT32_MIN + 100});
        sc.sy = (int)R(-40000, 40000);
      }
      break;
    }
    if (s.filter == 2) {
      s.kw = (int)R(1, 9);
      s.kh = (int)R(1, 9);
    }
    if (s.filter == 3) {
      s.kw = (int)R(1, 9);
      s.kh = (int)R(1, 9);
      s.kbx = (int)R(0, 4);
      s.kby = (int)R(0, 4);
    }
  }
  if (coin(12)) {
    // "text rendering" shape: solid source through an a1/a8/component-alpha mask that ends flush with its storage
    sc = gen_plain_scene(70, 5);
    sc.src = SImg();
    sc.src.kind = 1;
    sc.src.color = u32() | (coin(60) ? 0xff000000u : 0u);
    sc.has_mask = 1;
    sc.mask_is_src = 0;
    sc.mask = SImg();
    sc.mask.kind = 0;
    sc.mask.bits = gen_bits(fmt_index(pick<pixman_format_code_t>({PIXMAN_a1, PIXMAN_a1, PIXMAN_a8, PIXMAN_a8r8g8b8, PIXMAN_a4})), 1, 1);
    sc.mask.component_alpha = sc.mask.bits.code() == PIXMAN_a8r8g8b8 && coin(60);
    sc.op = pick<int>({PIXMAN_OP_OVER, PIXMAN_OP_OVER, PIXMAN_OP_ADD, PIXMAN_OP_SRC, PIXMAN_OP_IN, PIXMAN_OP_OVER_REVERSE});
    sc.dst.bits.fmt = fmt_index(pick<pixman_format_code_t>({PIXMAN_a8r8g8b8, PIXMAN_x8r8g8b8, PIXMAN_r5g6b5, PIXMAN_a8, PIXMAN_a8b8g8r8, PIXMAN_b5g6r5}));
    sc.dst.has_clip = 0;
    sc.mx = (int)R(0, 40);
    sc.my = (int)R(0, 3);
    int BPPm = bpp(sc.mask.bits.code());
    int unit = 32 / BPPm;
    int tot = ((sc.mx + sc.w + unit - 1) / unit) * unit;
    if (coin(75)) sc.w += tot - (sc.mx + sc.w);
    sc.mask.bits.w = sc.mx + sc.w;
    sc.mask.bits.h = sc.my + sc.h;
    sc.mask.bits.pad = 0;
    sc.mask.bits.neg = coin(10);
    sc.mask.bits.fence = pickw({3, 6, 1});
    sc.dst.bits.w = std::max(sc.dst.bits.w, sc.dx + sc.w);
    sc.dst.bits.fence = pickw({3, 5, 2});
  }
  if (coin(8)) {
    sc.dx = (int)pick<int64_t>({-32768, 32767, -100000, 100000});
    sc.w = pick<int>({1, 65535, 200000});
  }
  if (coin(6)) {
    sc.w = coin(50) ? 0 : 65535;
    sc.h = coin(50) ? 0 : 65535;
  }
  return c;
}

// would dest_x + width etc. overflow int32?  (outside "request geometry within int32 arithmetic range")
static bool geometry_in_int32(const Scene &sc) {
  auto ok = [](int64_t v) { return v >= INT32_MIN && v <= INT32_MAX; };
  return ok((int64_t)sc.dx + sc.w) && ok((int64_t)sc.dy + sc.h) && ok((int64_t)sc.sx + sc.w) && ok((int64_t)sc.sy + sc.h) && ok((int64_t)sc.mx + sc.w) && ok((int64_t)sc.my + sc.h) &&
         ok((int64_t)sc.dx - sc.sx) && ok((int64_t)sc.dy - sc.sy) && ok((int64_t)sc.dx - sc.mx) && ok((int64_t)sc.dy - sc.my) && sc.w >= 0 && sc.h >= 0;
}

static Verdict run_case(const OCase &c) {
  Verdict v;
  const Scene &sc = c.sc;
  if (!geometry_in_int32(sc)) {
    v.label("skipped_geometry_overflows_int32");
    return v;
  }
  Built b;
  build(sc, b);
  if (!b.ok) {
    v.label("image_creation_refused");
    return v;
  }
  draw(sc, b);  // a fault here is the violation (ASan report / SIGSEGV on a guard page)
  Boxes R = model_region(sc);
  // nothing outside the composite region changes, whatever the transform did
  {
    const Image &im = *b.d.bits;
    pixman_format_code_t f = im.d.code();
    int BPP = bpp(f), st = im.d.stride();
    for (int y = 0; y < im.d.h && v.ok; y++) {
      const uint8_t *now = im.rowp(y), *old = &im.before[(size_t)(im.rowp(y) - im.buf.p)];
      if (memcmp(now, old, (size_t)st) == 0) continue;
      for (int x = 0; x < im.d.w && v.ok; x++) {
        if (BPP >= 8 ? memcmp(now + (size_t)x * BPP / 8, old + (size_t)x * BPP / 8, (size_t)BPP / 8) == 0 : raw_get(now, BPP, x) == raw_get(old, BPP, x)) continue;
        if (!rr::contains(R, x, y)) v.fail(fmt("destination pixel (%d,%d) outside the composite region was modified", x, y));
      }
      int rb = row_bytes(f, im.d.w);
      if (v.ok && memcmp(now + rb, old + rb, (size_t)(st - rb)) != 0) v.fail(fmt("row padding of destination row %d modified", y));
    }
  }
  if (v.ok && b.s.bits && memcmp(b.s.bits->before.data(), b.s.bits->buf.p, b.s.bits->buf.size) != 0) v.fail("source storage modified");
  if (v.ok && b.m.bits && memcmp(b.m.bits->before.data(), b.m.bits->buf.p, b.m.bits->buf.size) != 0) v.fail("mask storage modified");
  if (acclog().bad) v.fail("accessor called with an address outside the pixel storage");
  bool tr = (sc.src.kind == 0 && sc.src.has_transform) || (sc.has_mask && !sc.mask_is_src && sc.mask.kind == 0 && sc.mask.has_transform);
  v.nontrivial = !R.empty() && tr;
  if (tr) v.label("transformed");
  if (R.empty()) v.label("empty_region");
  for (const SImg *s : {&sc.src, &sc.mask})
    if (s->kind == 0 && s->has_transform) {
      v.label(fmt("filter%d", s->filter));
      v.label(fmt("repeat%d", s->repeat));
      if (s->m.size() == 9 && (s->m[6] || s->m[7] || s->m[8] != 65536)) v.label("projective");
    }
  return v;
}

static void register_props() { add_prop<OCase>("oob", gen_case, run_case); }
VF_MAIN()
