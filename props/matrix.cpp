// C11: fixed-point transform arithmetic vs. exact __int128 / long double references (DESIGN.md §4 C11).
#include "vf.hpp"
#include <cmath>
extern "C" {
#include <pixman.h>
}
using namespace vf;
typedef __int128 i128;

struct MCase {
  int fn = 0;
  std::vector<int64_t> a;  // 9 entries (matrix A)
  std::vector<int64_t> b;  // 9 entries (matrix B) or vector (3) / args
  int alias = 0;
  std::vector<double> d;   // doubles for the float conversion
  template <class A> void io(A &ar) {
    ar.f("fn", fn);
    ar.f("a", a);
    ar.f("b", b);
    ar.f("alias", alias);
    int n = (int)d.size();
    ar.f("nd", n);
    d.resize(n);
    for (int i = 0; i < n; i++) ar.f("d", d[i]);
  }
};
enum Fn { F_POINT3D, F_POINT, F_MULTIPLY, F_SCALE, F_ROTATE, F_TRANSLATE, F_BOUNDS, F_INVERT, F_PRED, F_FROMF, F_TOF, F_N };
static const char *fn_name[] = {"point_3d", "point", "multiply", "scale", "rotate", "translate", "bounds", "invert", "predicates", "from_f", "to_f"};

// ---------------------------------------------------------------- generators
static int64_t gen_fixed(int flavour) {
  // flavour 0: anything; 1: moderate (|x| <= 2^8 real); 2: small integers-ish
  int k = flavour == 0 ? pickw({2, 2, 6, 5, 2, 6, 3}) : flavour == 1 ? pickw({2, 2, 0, 4, 0, 0, 6}) : pickw({3, 3, 0, 0, 0, 0, 3});
  switch (k) {
  case 0: return 0;
  case 1: return pick<int64_t>({1, -1, 65536, -65536, 2, -2, 32768, -32768});
  case 2: {  // +-2^k, +-2^k +- 1
    int e = (int)R(0, 31);
    int64_t v = (int64_t)1 << e;
    v += R(-1, 1);
    if (coin(50)) v = -v;
    return std::max<int64_t>(INT32_MIN, std::min<int64_t>(INT32_MAX, v));
  }
  case 3: {  // moderate
    int e = (int)R(0, 24);
    int64_t v = R(0, ((int64_t)1 << e));
    return coin(50) ? -v : v;
  }
  case 4: return pick<int64_t>({INT32_MAX, INT32_MIN, INT32_MAX - 1, INT32_MIN + 1});
  case 5: return R(INT32_MIN, INT32_MAX);
  default: return R(-4, 4) * 65536 + (coin(30) ? R(-2, 2) : 0) + (coin(20) ? 32768 : 0);
  }
}
static std::vector<int64_t> gen_matrix(int kind) {
  // kind 0: arbitrary, 1: affine (last row 0 0 1), 2: projective with interesting w row, 3: moderate affine
  std::vector<int64_t> m(9);
  int fl = (kind == 3) ? 1 : 0;
  for (int i = 0; i < 9; i++) m[i] = gen_fixed(fl);
  if (kind == 1 || kind == 3) {
    m[6] = 0;
    m[7] = 0;
    m[8] = 65536;
  } else if (kind == 2) {
    m[6] = coin(60) ? 0 : gen_fixed(0);
    m[7] = coin(60) ? 0 : gen_fixed(0);
    m[8] = gen_fixed(0);
  }
  return m;
}
static MCase gen_case() {
  MCase c;
  c.fn = pickw({5, 8, 5, 3, 3, 3, 3, 4, 1, 3, 1});
  switch (c.fn) {
  case F_POINT3D:
    c.a = gen_matrix(pickw({3, 2, 2, 1}));
    c.b = {gen_fixed(0), gen_fixed(0), gen_fixed(0)};
    break;
  case F_POINT: {
    c.a = gen_matrix(pickw({2, 3, 5, 1}));
    c.b = {gen_fixed(0), gen_fixed(0), coin(50) ? 65536 : gen_fixed(0)};
    if (coin(35)) {
      // steer w = row2 . v to an exact power of two (incl. +-65536.0 and 0) with a small perturbation
      // choose m22 and v2 so that m22*v2 = +-2^k (scale 2^32) and zero the other w terms
      int e1 = (int)R(0, 31), e2 = (int)R(0, 31);
      int64_t m22 = (int64_t)1 << e1, v2 = (int64_t)1 << e2;
      if (m22 > INT32_MAX) m22 = INT32_MIN;  // -2^31
      if (v2 > INT32_MAX) v2 = INT32_MIN;
      if (coin(50) && m22 != INT32_MIN) m22 = -m22;
      c.a[8] = m22;
      c.b[2] = v2;
      c.a[6] = coin(70) ? 0 : R(-2, 2);
      c.a[7] = coin(70) ? 0 : R(-2, 2);
    }
    break;
  }
  case F_MULTIPLY:
    c.a = gen_matrix(pickw({3, 2, 2, 3}));
    c.b = gen_matrix(pickw({3, 2, 2, 3}));
    c.alias = (int)R(0, 3);
    break;
  case F_SCALE:
  case F_ROTATE:
  case F_TRANSLATE:
    c.a = gen_matrix(pickw({2, 2, 1, 4}));  // forward
    c.b = gen_matrix(pickw({2, 2, 1, 4}));  // reverse
    c.b.push_back(gen_fixed(coin(50) ? 0 : 1));
    c.b.push_back(gen_fixed(coin(50) ? 0 : 1));
    if (c.fn == F_SCALE && coin(30)) c.b[9] = pick<int64_t>({1, -1, 2, 3, 65536, 0, 98304});
    c.alias = (int)R(0, 2);  // 0 both, 1 forward only, 2 reverse only
    break;
  case F_BOUNDS:
    c.a = gen_matrix(pickw({1, 3, 2, 4}));
    c.b = {R(-32768, 32767), R(-32768, 32767), R(-32768, 32767), R(-32768, 32767)};
    if (coin(50)) c.b = {R(-50, 50), R(-50, 50), R(-50, 50), R(-50, 50)};
    break;
  case F_INVERT: {
    int k = pickw({4, 3, 2});
    if (k == 0) {  // well conditioned: moderate entries
      c.a.resize(9);
      for (int i = 0; i < 9; i++) c.a[i] = R(-256 * 65536, 256 * 65536);
      if (coin(60)) {
        c.a[6] = 0;
        c.a[7] = 0;
        c.a[8] = 65536;
      }
    } else if (k == 1) {  // exactly singular, small entries (determinant exact in double)
      c.a.resize(9);
      for (int i = 0; i < 6; i++) c.a[i] = R(-300, 300) * (coin(50) ? 1 : 256);
      int64_t p = R(-3, 3), q = R(-3, 3);
      for (int i = 0; i < 3; i++) c.a[6 + i] = p * c.a[i] + q * c.a[3 + i];
    } else
      c.a = gen_matrix(0);
    c.alias = coin(50);
    break;
  }
  case F_PRED:
    c.a = gen_matrix(pickw({1, 2, 1, 1}));
    if (coin(60)) {
      c.a = {65536, 0, 0, 0, 65536, 0, 0, 0, 65536};
      for (int i = 0; i < 9; i++) c.a[i] += R(-3, 3);
      if (coin(40)) c.a[2] += R(-5, 5) * 65536;
      // one or two entries at the ends of the 32-bit range: "is this entry within epsilon of 0 / 1" must not wrap
      if (coin(30)) {
        int n = (int)R(1, 2);
        for (int k = 0; k < n; k++) c.a[(size_t)R(0, 8)] = pick<int64_t>({INT32_MIN, INT32_MAX, INT32_MIN + 1, INT32_MIN + 65536, INT32_MAX - 65535, INT32_MIN + 2});
      }
    }
    c.b = gen_matrix(1);
    break;
  case F_FROMF: {
    for (int i = 0; i < 9; i++) {
      double v;
      int k = pickw({4, 3, 3, 2});
      if (k == 0) v = (double)R(INT32_MIN, INT32_MAX) / 65536.0;                                   // on the grid
      else if (k == 1) v = (double)R(INT32_MIN, INT32_MAX) / 65536.0 + (double)R(-70000, 70000) / (65536.0 * 65536.0);  // off grid
      else if (k == 2)  // near the limits 32767.0 (documented cut-off) and 32768.0 (representability), +- a few units and sub-unit offsets
        v = (coin(50) ? 1 : -1) * ((coin(50) ? 32768.0 : 32767.0) + (double)(coin(60) ? R(-3, 3) : R(-70000, 70000)) / 65536.0 + (double)R(-5, 5) / (65536.0 * 65536.0 * 4));
      else v = (double)R(-100000, 100000);
      c.d.push_back(v);
    }
    break;
  }
  case F_TOF: c.a = gen_matrix(0); break;
  }
  return c;
}

// ---------------------------------------------------------------- helpers
static void to_t(const std::vector<int64_t> &m, pixman_transform_t *t) {
  for (int i = 0; i < 9; i++) t->matrix[i / 3][i % 3] = (pixman_fixed_t)m[i];
}
static i128 iabs(i128 x) { return x < 0 ? -x : x; }
static bool fits32(i128 x) { return x >= INT32_MIN && x <= INT32_MAX; }
// nearest integer(s) to n/d (d != 0): returns lo,hi (equal unless tie)
static void nearest(i128 n, i128 d, i128 *lo, i128 *hi) {
  if (d < 0) {
    n = -n;
    d = -d;
  }
  i128 q = n / d, r = n % d;  // trunc toward zero
  if (r < 0) {
    q -= 1;
    r += d;
  }  // floor
  i128 twice = 2 * r;
  if (twice < d) *lo = *hi = q;
  else if (twice > d) *lo = *hi = q + 1;
  else {
    *lo = q;
    *hi = q + 1;
  }
}
static std::string i128s(i128 v) {
  char b[64];
  bool neg = v < 0;
  if (neg) v = -v;
  std::string s;
  if (v == 0) s = "0";
  while (v > 0) {
    s.insert(s.begin(), (char)('0' + (int)(v % 10)));
    v /= 10;
  }
  return (neg ? "-" : "") + s;
}

// entry-wise check of a 3x3 product against the exact sums: each entry within 1.5 ulp (three separately rounded products)
static bool check_product(const pixman_transform_t &L, const pixman_transform_t &Rm, bool ret, const pixman_transform_t &got, const pixman_transform_t &before, Verdict &v,
                          const char *what, bool *overflow_out = nullptr) {
  bool must_fail = false, may_fail = false;
  for (int i = 0; i < 3; i++)
    for (int j = 0; j < 3; j++) {
      i128 s = 0;
      for (int o = 0; o < 3; o++) s += (i128)L.matrix[i][o] * Rm.matrix[o][j];
      // s is at scale 2^32; value in ulps = s/65536
      i128 lo, hi;
      nearest(s, 65536, &lo, &hi);
      // the sum of three individually rounded products lies within +-1 of the nearest value
      if (!fits32(lo - 2) || !fits32(hi + 2)) may_fail = true;
      if (!fits32(lo + 2) && !fits32(hi - 2)) must_fail = true;  // out of range by every admissible rounding
      if (ret) {
        i128 g = got.matrix[i][j];
        // |g*65536 - s| <= 1.5 * 65536
        if (iabs(g * 65536 - s) > 98304) {
          v.fail(fmt("%s: entry [%d][%d]=%d but exact value is %s/65536 (more than 1.5 ulp away)", what, i, j, got.matrix[i][j], i128s(s).c_str()));
          return false;
        }
      }
    }
  if (overflow_out) *overflow_out = must_fail;
  if (ret && must_fail) {
    v.fail(fmt("%s: returned TRUE although an entry is not representable", what));
    return false;
  }
  if (!ret && !may_fail) {
    v.fail(fmt("%s: returned FALSE although every entry is representable", what));
    return false;
  }
  if (!ret && memcmp(&got, &before, sizeof got) != 0) {
    v.fail(fmt("%s: returned FALSE but modified the destination", what));
    return false;
  }
  return true;
}

static Verdict run_case(const MCase &c) {
  Verdict v;
  v.label(std::string("fn_") + fn_name[c.fn]);
  pixman_transform_t A, B;
  if (c.a.size() >= 9) to_t(c.a, &A);
  switch (c.fn) {
  case F_POINT3D: {
    pixman_vector_t vec = {{(pixman_fixed_t)c.b[0], (pixman_fixed_t)c.b[1], (pixman_fixed_t)c.b[2]}};
    pixman_bool_t ret = pixman_transform_point_3d(&A, &vec);
    bool all_fit = true, big = false;
    for (int i = 0; i < 3; i++) {
      i128 s = 0;
      for (int j = 0; j < 3; j++) s += (i128)A.matrix[i][j] * c.b[j];
      i128 lo, hi;
      nearest(s, 65536, &lo, &hi);
      if (iabs(s) > ((i128)1 << 62)) big = true;
      bool fit_lo = fits32(lo), fit_hi = fits32(hi);
      if (!fit_lo && !fit_hi) all_fit = false;
      else if (fit_lo != fit_hi) {  // tie at the limit: either answer
        if (!ret) return v;
      }
      if (ret && !(vec.vector[i] == lo || vec.vector[i] == hi)) {
        if (fit_lo || fit_hi) v.fail(fmt("point_3d: row %d = %d, exact %s/65536 (nearest %s)", i, vec.vector[i], i128s(s).c_str(), i128s(lo).c_str()));
        else v.fail(fmt("point_3d: returned TRUE but row %d (%s/65536) is not representable", i, i128s(s).c_str()));
        return v;
      }
    }
    if ((bool)ret != all_fit) v.fail(fmt("point_3d: returned %d, representable=%d", (int)ret, (int)all_fit));
    v.nontrivial = big || !all_fit || (c.b[2] != 65536);
    break;
  }
  case F_POINT: {
    pixman_vector_t vec = {{(pixman_fixed_t)c.b[0], (pixman_fixed_t)c.b[1], (pixman_fixed_t)c.b[2]}};
    i128 S[3];
    for (int i = 0; i < 3; i++) {
      S[i] = 0;
      for (int j = 0; j < 3; j++) S[i] += (i128)A.matrix[i][j] * c.b[j];
    }
    i128 W = S[2];  // scale 2^32
    // S7: the library aborts here when W == -2^48 exactly (assert); the process dies and the driver reports it
    pixman_bool_t ret = pixman_transform_point(&A, &vec);
    if (W == 0) {
      if (ret) v.fail("point: w == 0 but returned TRUE");
      v.label("w_zero");
      v.nontrivial = true;
      return v;
    }
    bool exact_zone = iabs(W) < ((i128)1 << 48);  // |w| < 65536.0
    bool all_def_fit = true, any_def_not = false;
    for (int i = 0; i < 2; i++) {
      i128 num = S[i] * 65536;  // result in ulps = num / W
      i128 lo, hi;
      nearest(num, W, &lo, &hi);
      i128 slack = exact_zone ? 0 : 1;
      if (!(fits32(lo - slack) && fits32(hi + slack))) all_def_fit = false;
      if (!fits32(lo + slack) && !fits32(hi - slack)) any_def_not = true;
      if (ret) {
        i128 g = vec.vector[i];
        i128 err = iabs(g * W - num);  // = |g - num/W| * |W|
        i128 tol = exact_zone ? (iabs(W) + 1) / 2 : iabs(W);
        if (err > tol) {
          v.fail(fmt("point: coord %d = %d but exact quotient is %s/%s ulps (%s)", i, vec.vector[i], i128s(num).c_str(), i128s(W).c_str(), exact_zone ? "|w|<65536: must be nearest" : "|w|>=65536: within 1"));
          return v;
        }
      }
    }
    if (ret && vec.vector[2] != 65536) v.fail(fmt("point: w component is %d, not 1.0", vec.vector[2]));
    if (ret && any_def_not) v.fail("point: returned TRUE although the result is not representable");
    if (!ret && all_def_fit) v.fail("point: returned FALSE although the result is representable");
    v.nontrivial = (W != ((i128)1 << 32));
    if (any_def_not) v.label("not_representable");
    if (!exact_zone) v.label("w_ge_65536");
    if (iabs(W) == ((i128)1 << 48)) v.label("w_eq_65536");
    if (W != ((i128)1 << 32)) v.label("projective");
    break;
  }
  case F_MULTIPLY: {
    to_t(c.b, &B);
    pixman_transform_t D;
    memset(&D, 0x5a, sizeof D);
    pixman_transform_t L = A, Rm = B, before;
    pixman_bool_t ret;
    const pixman_transform_t *lp = &L, *rp = &Rm;
    pixman_transform_t *dp = &D;
    if (c.alias == 1) dp = &L;
    else if (c.alias == 2) dp = &Rm;
    else if (c.alias == 3) rp = &L;  // l == r
    before = *dp;
    pixman_transform_t Lc = *lp, Rc = *rp;
    ret = pixman_transform_multiply(dp, lp, rp);
    bool ovf = false;
    check_product(Lc, Rc, ret, *dp, before, v, "multiply", &ovf);
    v.nontrivial = true;
    if (ovf) v.label("overflow");
    if (c.alias) v.label("aliased");
    break;
  }
  case F_SCALE:
  case F_ROTATE:
  case F_TRANSLATE: {
    pixman_transform_t Fw = A, Rv;
    std::vector<int64_t> rb(c.b.begin(), c.b.begin() + 9);
    to_t(rb, &Rv);
    int64_t p = c.b[9], q = c.b[10];
    pixman_transform_t F0 = Fw, R0 = Rv;
    pixman_transform_t *fp = c.alias == 2 ? nullptr : &Fw, *rp = c.alias == 1 ? nullptr : &Rv;
    pixman_bool_t ret;
    pixman_transform_t Ef, Er;  // elementary matrices
    memset(&Ef, 0, sizeof Ef);
    memset(&Er, 0, sizeof Er);
    Ef.matrix[2][2] = Er.matrix[2][2] = 65536;
    bool rev_repr = true;
    const char *nm = fn_name[c.fn];
    std::vector<pixman_transform_t> er_candidates;
    if (c.fn == F_SCALE) {
      ret = pixman_transform_scale(fp, rp, (pixman_fixed_t)p, (pixman_fixed_t)q);
      if (p == 0 || q == 0) {
        if (ret) v.fail("scale: zero factor but returned TRUE");
        return v;
      }
      Ef.matrix[0][0] = (pixman_fixed_t)p;
      Ef.matrix[1][1] = (pixman_fixed_t)q;
      // 1/s in 16.16: accept truncation or nearest (2^32/s within 1 ulp)
      i128 ip = ((i128)1 << 32) / p, iq = ((i128)1 << 32) / q;
      for (int dp_ = -1; dp_ <= 1; dp_++)
        for (int dq = -1; dq <= 1; dq++) {
          i128 a = ip + dp_, b = iq + dq;
          if (iabs(a * p - ((i128)1 << 32)) >= iabs(p) || iabs(b * q - ((i128)1 << 32)) >= iabs(q)) continue;  // floor or ceil of the exact quotient
          if (!fits32(a) || !fits32(b)) continue;
          pixman_transform_t e = Er;
          e.matrix[0][0] = (pixman_fixed_t)a;
          e.matrix[1][1] = (pixman_fixed_t)b;
          er_candidates.push_back(e);
        }
      if (er_candidates.empty()) rev_repr = false;
    } else if (c.fn == F_ROTATE) {
      if (p == INT32_MIN || q == INT32_MIN) {
        v.label("skipped_int_min");
        return v;  // -s is not representable: outside the domain (cos/sin are in [-1,1] for any caller)
      }
      ret = pixman_transform_rotate(fp, rp, (pixman_fixed_t)p, (pixman_fixed_t)q);
      Ef.matrix[0][0] = (pixman_fixed_t)p;
      Ef.matrix[0][1] = (pixman_fixed_t)-q;
      Ef.matrix[1][0] = (pixman_fixed_t)q;
      Ef.matrix[1][1] = (pixman_fixed_t)p;
      Er = Ef;
      Er.matrix[0][1] = (pixman_fixed_t)q;
      Er.matrix[1][0] = (pixman_fixed_t)-q;
      er_candidates.push_back(Er);
    } else {
      ret = pixman_transform_translate(fp, rp, (pixman_fixed_t)p, (pixman_fixed_t)q);
      Ef.matrix[0][0] = Ef.matrix[1][1] = 65536;
      Ef.matrix[0][2] = (pixman_fixed_t)p;
      Ef.matrix[1][2] = (pixman_fixed_t)q;
      Er = Ef;
      if (p == INT32_MIN || q == INT32_MIN) rev_repr = false;  // -t not representable
      else {
        Er.matrix[0][2] = (pixman_fixed_t)-p;
        Er.matrix[1][2] = (pixman_fixed_t)-q;
        er_candidates.push_back(Er);
      }
    }
    // forward = E * F (computed first), reverse = R * E^-1 ; FALSE as soon as one of them overflows
    if (ret) {
      if (fp && !check_product(Ef, F0, true, Fw, F0, v, fmt("%s(forward)", nm).c_str())) return v;
      if (rp) {
        if (!rev_repr) {
          v.fail(fmt("%s(reverse): the inverse factor is not representable in 16.16 but the call returned TRUE (wrapped value)", nm));
          return v;
        }
        bool any = false;
        std::string firstmsg;
        for (auto &e : er_candidates) {
          Verdict t;
          if (check_product(R0, e, true, Rv, R0, t, fmt("%s(reverse)", nm).c_str())) {
            any = true;
            break;
          }
          if (firstmsg.empty()) firstmsg = t.msg;
        }
        if (!any) {
          v.fail(firstmsg);
          return v;
        }
      }
    } else {
      bool justified = false;
      if (fp) {
        Verdict t;
        check_product(Ef, F0, false, F0, F0, t, nm);
        if (t.ok) justified = true;  // forward may overflow
      }
      if (rp && !justified) {
        if (!rev_repr) justified = true;
        for (auto &e : er_candidates) {
          Verdict t;
          check_product(R0, e, false, R0, R0, t, nm);
          if (t.ok) justified = true;
        }
      }
      if (!justified) v.fail(fmt("%s: returned FALSE although forward and reverse results are representable", nm));
    }
    v.nontrivial = true;
    if (!rev_repr) v.label("inverse_not_representable");
    if (!ret) v.label("returned_false");
    break;
  }
  case F_BOUNDS: {
    pixman_box16_t bx = {(int16_t)std::min(c.b[0], c.b[2]), (int16_t)std::min(c.b[1], c.b[3]), (int16_t)std::max(c.b[0], c.b[2]), (int16_t)std::max(c.b[1], c.b[3])};
    pixman_box16_t in = bx;
    pixman_bool_t ret = pixman_transform_bounds(&A, &bx);
    int64_t cx[4] = {in.x1, in.x2, in.x2, in.x1}, cy[4] = {in.y1, in.y1, in.y2, in.y2};
    bool any_unrepr = false, borderline = false;
    long double minx = 1e300L, maxx = -1e300L, miny = 1e300L, maxy = -1e300L;
    for (int k = 0; k < 4; k++) {
      i128 S[3];
      for (int i = 0; i < 3; i++) S[i] = (i128)A.matrix[i][0] * (cx[k] * 65536) + (i128)A.matrix[i][1] * (cy[k] * 65536) + (i128)A.matrix[i][2] * 65536;
      if (S[2] == 0) {
        any_unrepr = true;
        continue;
      }
      for (int i = 0; i < 2; i++) {
        i128 lo, hi;
        nearest(S[i] * 65536, S[2], &lo, &hi);
        if (!fits32(lo) || !fits32(hi)) any_unrepr = true;
        if (!fits32(lo - 1) || !fits32(hi + 1)) borderline = true;
        long double val = (long double)S[i] / (long double)S[2];
        if (i == 0) {
          minx = std::min(minx, val);
          maxx = std::max(maxx, val);
        } else {
          miny = std::min(miny, val);
          maxy = std::max(maxy, val);
        }
      }
    }
    if (any_unrepr) {
      if (ret && !borderline) v.fail("bounds: a corner is not representable but returned TRUE");
      v.label("corner_overflow");
      v.nontrivial = true;
      return v;
    }
    if (!ret) {
      if (!borderline) v.fail("bounds: all corners representable but returned FALSE");
      return v;
    }
    // result box is int16: only meaningful when the true bounds fit
    if (minx < -32767.5L || miny < -32767.5L || maxx > 32766.5L || maxy > 32766.5L) {
      v.label("bounds_beyond_int16");
      return v;
    }
    long double eps = 1.0L / 65536 + 1e-9L;  // corners are rounded to 16.16 (+-1 ulp for |w|>=65536)
    if (bx.x1 > minx + eps || bx.y1 > miny + eps || bx.x2 < maxx - eps || bx.y2 < maxy - eps)
      v.fail(fmt("bounds: box (%d,%d)-(%d,%d) does not contain the corners [%Lf,%Lf]x[%Lf,%Lf]", bx.x1, bx.y1, bx.x2, bx.y2, minx, maxx, miny, maxy));
    if (bx.x1 < floorl(minx - eps) - 0.5L || bx.y1 < floorl(miny - eps) - 0.5L || bx.x2 > ceill(maxx + eps) + 0.5L || bx.y2 > ceill(maxy + eps) + 0.5L)
      v.fail(fmt("bounds: box (%d,%d)-(%d,%d) is more than the tight integer box of [%Lf,%Lf]x[%Lf,%Lf]", bx.x1, bx.y1, bx.x2, bx.y2, minx, maxx, miny, maxy));
    v.nontrivial = true;
    break;
  }
  case F_INVERT: {
    pixman_transform_t D;
    memset(&D, 0, sizeof D);
    pixman_transform_t S = A;
    pixman_transform_t *dp = c.alias ? &S : &D;
    pixman_bool_t ret = pixman_transform_invert(dp, &S);
    // exact determinant (scale 2^48)
    auto M = [&](int i, int j) { return (i128)A.matrix[i][j]; };
    i128 det = M(0, 0) * (M(1, 1) * M(2, 2) - M(1, 2) * M(2, 1)) - M(0, 1) * (M(1, 0) * M(2, 2) - M(1, 2) * M(2, 0)) + M(0, 2) * (M(1, 0) * M(2, 1) - M(1, 1) * M(2, 0));
    int64_t maxabs = 0;
    for (int i = 0; i < 9; i++) maxabs = std::max<int64_t>(maxabs, std::llabs(c.a[i]));
    if (det == 0) {
      v.label("singular");
      v.nontrivial = true;
      // products of three entries are exact in double when entries < 2^17 (fixed units): the library must see det == 0
      if (maxabs < (1 << 17) && ret) v.fail("invert: singular matrix but returned TRUE");
      if (maxabs >= (1 << 17)) v.label("singular_large_entries_not_asserted");
      return v;
    }
    // well-conditioned class: entries <= 2^8 (real) and |det| >= 2^-8 (real)  => det scale 2^48: |det| >= 2^40
    bool well = maxabs <= (256 << 16) && iabs(det) >= ((i128)1 << 40);
    if (!well) {
      v.label("ill_conditioned_not_asserted");
      return v;
    }
    // true inverse in long double
    long double a[3][3], inv[3][3];
    for (int i = 0; i < 3; i++)
      for (int j = 0; j < 3; j++) a[i][j] = (long double)A.matrix[i][j] / 65536.0L;
    long double d = (long double)det / 281474976710656.0L;
    inv[0][0] = (a[1][1] * a[2][2] - a[1][2] * a[2][1]) / d;
    inv[0][1] = (a[0][2] * a[2][1] - a[0][1] * a[2][2]) / d;
    inv[0][2] = (a[0][1] * a[1][2] - a[0][2] * a[1][1]) / d;
    inv[1][0] = (a[1][2] * a[2][0] - a[1][0] * a[2][2]) / d;
    inv[1][1] = (a[0][0] * a[2][2] - a[0][2] * a[2][0]) / d;
    inv[1][2] = (a[0][2] * a[1][0] - a[0][0] * a[1][2]) / d;
    inv[2][0] = (a[1][0] * a[2][1] - a[1][1] * a[2][0]) / d;
    inv[2][1] = (a[0][1] * a[2][0] - a[0][0] * a[2][1]) / d;
    inv[2][2] = (a[0][0] * a[1][1] - a[0][1] * a[1][0]) / d;
    long double mx = 0;
    for (int i = 0; i < 3; i++)
      for (int j = 0; j < 3; j++) mx = std::max(mx, fabsl(inv[i][j]));
    if (!ret) {
      if (mx < 32766.0L) v.fail(fmt("invert: well-conditioned matrix with representable inverse (max |entry| %Lf) but returned FALSE", mx));
      v.label("inverse_out_of_range");
      return v;
    }
    if (mx > 32768.0L) {
      v.fail(fmt("invert: inverse has an entry of magnitude %Lf (not representable) but returned TRUE", mx));
      return v;
    }
    for (int i = 0; i < 3; i++)
      for (int j = 0; j < 3; j++) {
        long double got = (long double)dp->matrix[i][j] / 65536.0L;
        // to within the 16.16 resolution: nearest (0.5 ulp) plus double-precision noise of the cofactor arithmetic
        long double tol = (0.5L + 1e-3L) / 65536.0L + fabsl(inv[i][j]) * 1e-9L;
        if (fabsl(got - inv[i][j]) > tol) {
          v.fail(fmt("invert: entry [%d][%d] = %.9Lf but the inverse is %.9Lf", i, j, got, inv[i][j]));
          return v;
        }
      }
    v.nontrivial = true;
    v.label("well_conditioned");
    break;
  }
  case F_PRED: {
    to_t(c.b, &B);
    pixman_transform_t I;
    pixman_transform_init_identity(&I);
    for (int i = 0; i < 3; i++)
      for (int j = 0; j < 3; j++)
        if (I.matrix[i][j] != (i == j ? 65536 : 0)) v.fail("init_identity wrong");
    if (!pixman_transform_is_identity(&I)) v.fail("is_identity(identity) FALSE");
    bool near_id = true, far_id = false;
    for (int i = 0; i < 3; i++)
      for (int j = 0; j < 3; j++) {
        int64_t dlt = std::llabs((int64_t)A.matrix[i][j] - (i == j ? 65536 : 0));
        if (dlt > (i == j ? 1 : 2)) near_id = false;  // diagonal entries are compared with each other (epsilon 2), so +-1 each
      }
    // a matrix proportional to identity also counts for pixman (it compares ratios), so only the implication
    // "all entries within epsilon of identity => TRUE" and "some off-diagonal entry beyond epsilon => FALSE" are asserted
    bool offdiag_big = false;
    for (int i = 0; i < 3; i++)
      for (int j = 0; j < 3; j++)
        if (i != j && std::llabs((int64_t)A.matrix[i][j]) > 2) offdiag_big = true;
    bool got = pixman_transform_is_identity(&A);
    if (near_id && !got) v.fail("is_identity: diagonal within 1 and off-diagonal within 2 units of identity but FALSE");
    if (offdiag_big && got) v.fail("is_identity: an off-diagonal entry is beyond epsilon but TRUE");
    if (pixman_transform_is_int_translate(&A)) {
      if (offdiag_big && (std::llabs((int64_t)A.matrix[0][1]) > 2 || std::llabs((int64_t)A.matrix[1][0]) > 2 || std::llabs((int64_t)A.matrix[2][0]) > 2 || std::llabs((int64_t)A.matrix[2][1]) > 2))
        v.fail("is_int_translate TRUE for a matrix with a non-zero non-translation off-diagonal entry");
      int f0 = A.matrix[0][2] & 0xffff, f1 = A.matrix[1][2] & 0xffff;
      if ((f0 > 2 && f0 < 65534) || (f1 > 2 && f1 < 65534)) v.fail("is_int_translate TRUE for a fractional translation");
    }
    // is_inverse(a,b) <=> is_identity(a*b)
    pixman_transform_t P;
    if (pixman_transform_multiply(&P, &A, &B)) {
      if ((bool)pixman_transform_is_inverse(&A, &B) != (bool)pixman_transform_is_identity(&P)) v.fail("is_inverse disagrees with is_identity(a*b)");
    }
    v.nontrivial = near_id || offdiag_big;
    break;
  }
  case F_FROMF: {
    pixman_f_transform_t ft;
    for (int i = 0; i < 9; i++) ft.m[i / 3][i % 3] = c.d[i];
    pixman_transform_t t;
    memset(&t, 0x11, sizeof t);
    pixman_bool_t ret = pixman_transform_from_pixman_f_transform(&t, &ft);
    bool must_true = true, must_false = false;
    for (int i = 0; i < 9; i++) {
      double dd = c.d[i];
      if (fabs(dd) > 32767.0) must_true = false;
      long double ulps = (long double)dd * 65536.0L;
      if (ulps > 2147483647.5L || ulps < -2147483648.5L) must_false = true;
    }
    if (must_true && !ret) v.fail("from_f_transform: all entries within +-32767 but returned FALSE");
    if (must_false && ret) v.fail("from_f_transform: an entry is not representable but returned TRUE");
    if (ret) {
      for (int i = 0; i < 9; i++) {
        long double ulps = (long double)c.d[i] * 65536.0L;
        long double got = (long double)t.matrix[i / 3][i % 3];
        if (fabsl(got - ulps) > 0.5L + 1e-6L) {
          v.fail(fmt("from_f_transform: entry %d: %.10g -> %d, not the nearest 16.16 value (%.3Lf ulps)", i, c.d[i], t.matrix[i / 3][i % 3], ulps));
          break;
        }
      }
    }
    v.nontrivial = true;
    if (!must_true) v.label("beyond_32767");
    break;
  }
  case F_TOF: {
    pixman_f_transform_t ft;
    pixman_f_transform_from_pixman_transform(&ft, &A);
    for (int i = 0; i < 9; i++)
      if (ft.m[i / 3][i % 3] != (double)A.matrix[i / 3][i % 3] / 65536.0) v.fail("to f_transform not exact");
    // and back (exact values on the grid, within +-32767)
    pixman_transform_t back;
    bool in = true;
    for (int i = 0; i < 9; i++)
      if (std::llabs(c.a[i]) > 32767LL * 65536) in = false;
    pixman_bool_t ret = pixman_transform_from_pixman_f_transform(&back, &ft);
    if (in && (!ret || memcmp(&back, &A, sizeof A) != 0)) v.fail("fixed -> double -> fixed is not the identity");
    v.nontrivial = in;
    break;
  }
  }
  return v;
}

static void register_props() { add_prop<MCase>("matrix", gen_case, run_case); }
VF_MAIN()
