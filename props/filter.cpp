// C18: separable-convolution parameter blocks (DESIGN.md §4 C18).  Built against the asan variant so that writes outside
// the block are visible and the allocation size the library asked for is known (vf_last_size).
#include "vf.hpp"
#include <cmath>
extern "C" {
#include <pixman.h>
#ifdef VF_HAVE_ALLOC_HOOKS
extern unsigned long vf_last_size;
extern long vf_alloc_live;
void vf_free(void *);
#endif
}
using namespace vf;

struct FCase {
  int rx = 0, ry = 0, sx = 0, sy = 0, bx = 0, by = 0;
  int64_t scale_x = 65536, scale_y = 65536;
  uint32_t color = 0xff808080;
  template <class A> void io(A &a) {
    a.f("rx", rx);
    a.f("ry", ry);
    a.f("sx", sx);
    a.f("sy", sy);
    a.f("bx", bx);
    a.f("by", by);
    a.f("scale_x", scale_x);
    a.f("scale_y", scale_y);
    a.f("color", color);
  }
};
static const double KW[8] = {0, 1, 2, 4, 5, 4, 6, 8};  // documented supports of the 8 kernels (IMPULSE..LANCZOS3_STRETCHED)
static const char *KN[8] = {"impulse", "box", "linear", "cubic", "gaussian", "lanczos2", "lanczos3", "lanczos3s"};

static int64_t gen_scale() {
  switch (pickw({4, 3, 2, 2, 1})) {
  case 0: {  // log-uniform 2^-16 .. 2^6
    int e = (int)R(0, 22);
    int64_t lo = (int64_t)1 << e;
    return R(lo, 2 * lo - 1);
  }
  case 1: return (int64_t)1 << R(0, 22);                      // exact powers of two
  case 2: return 65536 + R(-2, 2);                            // 1 +- ulp
  case 3: return pick<int64_t>({32768, 98304, 131072, 21845, 43691, 163840});  // 1/2, 3/2, 2, 1/3, 2/3, 5/2
  default: return -R(1, 4 * 65536);                           // negative scales are taken by magnitude
  }
}
static FCase gen_case() {
  FCase c;
  c.rx = (int)R(0, 7);
  c.ry = (int)R(0, 7);
  c.sx = (int)R(0, 7);
  c.sy = (int)R(0, 7);
  c.scale_x = gen_scale();
  c.scale_y = gen_scale();
  // keep table sizes moderate: width * 2^bits <= 16384 per axis (memory/time of the harness, not a library limit)
  // (one case in sixteen may go up to 70000 entries per axis: width * 2^bits beyond 32768)
  const double cap = coin(6) ? 70000 : 16384;
  auto maxbits = [cap](int r, int s, int64_t sc) {
    double w = std::ceil(KW[r] + std::fabs((double)sc / 65536.0) * KW[s]);
    if (w < 1) w = 1;
    int b = 8;
    while (b > 0 && w * (1 << b) > cap) b--;
    return b;
  };
  c.bx = (int)R(0, maxbits(c.rx, c.sx, c.scale_x));
  c.by = (int)R(0, maxbits(c.ry, c.sy, c.scale_y));
  if (cap > 20000 && coin(60)) c.bx = maxbits(c.rx, c.sx, c.scale_x);  // as many phases as fit
  c.color = pickw({1, 1, 3}) == 0 ? 0u : (coin(50) ? 0xffffffffu : u32());
  return c;
}

static Verdict run_case(const FCase &c) {
  Verdict v;
  v.label(std::string("rx_") + KN[c.rx]);
  v.label(std::string("sx_") + KN[c.sx]);
  int n = -12345;
#ifdef VF_HAVE_ALLOC_HOOKS
  vf_last_size = 0;
#endif
  pixman_fixed_t *p = pixman_filter_create_separable_convolution(&n, (pixman_fixed_t)c.scale_x, (pixman_fixed_t)c.scale_y, (pixman_kernel_t)c.rx, (pixman_kernel_t)c.ry,
                                                                  (pixman_kernel_t)c.sx, (pixman_kernel_t)c.sy, c.bx, c.by);
  if (!p) {
    v.fail("create_separable_convolution returned NULL without an allocation failure");
    return v;
  }
  auto done = [&] {
#ifdef VF_HAVE_ALLOC_HOOKS
    vf_free(p);
#else
    free(p);
#endif
  };
#ifdef VF_HAVE_ALLOC_HOOKS
  if (n > 0 && vf_last_size < (unsigned long)n * 4) {
    v.fail(fmt("block allocated with %lu bytes but announced length is %d values", vf_last_size, n));
    done();
    return v;
  }
#endif
  if (n < 4) {
    v.fail(fmt("announced length %d < 4", n));
    done();
    return v;
  }
  bool integral_hdr = true;
  for (int i = 0; i < 4; i++)
    if (p[i] & 0xffff) integral_hdr = false;
  int w = p[0] >> 16, h = p[1] >> 16, bx = p[2] >> 16, by = p[3] >> 16;
  const char *known = nullptr;
  if (!integral_hdr) v.fail("header fields are not integers");
  else if (bx != c.bx || by != c.by) v.fail(fmt("header phase bits (%d,%d) differ from the requested (%d,%d)", bx, by, c.bx, c.by));
  else if (w < 1 || h < 1) {
    v.fail(fmt("header announces a %dx%d kernel: a phase with no coefficients cannot sum to 1", w, h));
    known = "S12";
  } else if ((long)n != 4 + (long)w * (1 << bx) + (long)h * (1 << by))
    v.fail(fmt("announced length %d != 4 + %d*%d + %d*%d", n, w, 1 << bx, h, 1 << by));
  if (!v.ok) {
    v.known = known;
    done();
    return v;
  }
  // every phase sums to exactly 1.0, computed without wrap-around
  const pixman_fixed_t *q = p + 4;
  bool neg = false;
  for (int axis = 0; axis < 2 && v.ok; axis++) {
    int ww = axis ? h : w, phases = 1 << (axis ? by : bx);
    for (int ph = 0; ph < phases && v.ok; ph++) {
      int64_t sum = 0;
      for (int k = 0; k < ww; k++) {
        sum += q[k];
        if (q[k] < 0) neg = true;
      }
      if (v.ok && sum != 65536) v.fail(fmt("%c phase %d of %d (width %d) sums to %lld, not 65536", axis ? 'y' : 'x', ph, phases, ww, (long long)sum));
      q += ww;
    }
  }
  if (!v.ok) {
    done();
    return v;
  }
  // set_filter accepts the block; a constant image stays constant
  uint32_t srcpx[25];
  for (auto &x : srcpx) x = c.color;
  pixman_image_t *src = pixman_image_create_bits(PIXMAN_a8r8g8b8, 5, 5, srcpx, 20);
  if (!pixman_image_set_filter(src, PIXMAN_FILTER_SEPARABLE_CONVOLUTION, p, n)) v.fail("pixman_image_set_filter rejected the block");
  if (v.ok && (long)w * h <= 200) {
    // (the fetchers round each x*y coefficient product, so the consequence is only exact for small kernels)
    pixman_transform_t t;
    pixman_transform_init_scale(&t, (pixman_fixed_t)(c.scale_x ? c.scale_x : 1), (pixman_fixed_t)(c.scale_y ? c.scale_y : 1));
    pixman_image_set_transform(src, &t);
    pixman_image_set_repeat(src, PIXMAN_REPEAT_PAD);
    uint32_t dst[16];
    memset(dst, 0x5a, sizeof dst);
    pixman_image_t *d = pixman_image_create_bits(PIXMAN_a8r8g8b8, 4, 4, dst, 16);
    pixman_image_composite32(PIXMAN_OP_SRC, src, nullptr, d, 0, 0, 0, 0, 0, 0, 4, 4);
    for (int i = 0; i < 16; i++)
      if (dst[i] != c.color) {
        v.fail(fmt("constant image 0x%08x filtered to 0x%08x at pixel %d (kernel %dx%d)", c.color, dst[i], i, w, h));
        break;
      }
    pixman_image_unref(d);
    v.label("constant_image_checked");
  }
  pixman_image_unref(src);
  done();
  v.nontrivial = w >= 2 || h >= 2 || bx >= 1 || by >= 1;
  if (neg) v.label("negative_taps");
  if (w >= 16 || h >= 16) v.label("wide_kernel");
  return v;
}

static void register_props() { add_prop<FCase>("filter", gen_case, run_case); }
VF_MAIN()
