// C17: the glyph cache is a faithful map under any history; glyph drawing is per-glyph (DESIGN.md §4 C17).
#include "scene.hpp"
#include <list>
using namespace vf;
using namespace img;
using namespace scene;
extern "C" void pixman_verif_glyph_cache_stats(pixman_glyph_cache_t *cache, int *n_glyphs, int *n_tombstones, int *actual_glyphs, int *actual_tombstones);

#ifdef PIXMAN_VERIF_GLYPH_HIGH_WATER
static const int HIGH = PIXMAN_VERIF_GLYPH_HIGH_WATER, LOW = PIXMAN_VERIF_GLYPH_LOW_WATER;
#else
static const int HIGH = 16384, LOW = 8192;
#endif
static const int CAPACITY = 2 * HIGH;

static const pixman_format_code_t GF[] = {PIXMAN_a8, PIXMAN_a1, PIXMAN_a4, PIXMAN_a8r8g8b8, PIXMAN_x8r8g8b8, PIXMAN_r3g3b2, PIXMAN_a8b8g8r8, PIXMAN_b8g8r8a8, PIXMAN_a4r4g4b4};
static const int NGF = 9;

struct GImg {
  int fmt = 0, w = 1, h = 1, ox = 0, oy = 0;
  uint64_t seed = 0;
  template <class A> void io(A &a) {
    a.f("fmt", fmt);
    a.f("w", w);
    a.f("h", h);
    a.f("ox", ox);
    a.f("oy", oy);
    a.f("seed", seed);
  }
};
static GImg gen_gimg() {
  GImg g;
  g.fmt = pickw({4, 2, 2, 3, 1, 1, 1, 1, 1});
  g.w = (int)R(1, 9);
  g.h = (int)R(1, 5);
  g.ox = (int)R(-3, 6);
  g.oy = (int)R(-3, 6);
  g.seed = seed64();
  return g;
}
static std::unique_ptr<Image> make_gimg(const GImg &g) {
  Bits b = gen_bits_fixed(fmt_index(GF[g.fmt]), g.w, g.h, g.seed);
  b.fill = FILL_RANDOM;
  return make_image(b);
}

// ================================================================ (a) cache histories
enum { K_FREEZE, K_THAW, K_INSERT, K_LOOKUP, K_REMOVE, K_DRAW, K_INSERT_BLOCK, K_REMOVE_BLOCK, K_N };
struct Cmd {
  int op = 0;
  int key = 0;   // index into the key pool; block commands: first key
  int n = 0;     // block size / number of glyphs drawn
  GImg img;
  std::vector<int64_t> keys;  // draw: keys (absent ones are skipped at run time)
  template <class A> void io(A &a) {
    a.f("op", op);
    a.f("key", key);
    a.f("n", n);
    a.f("img", img);
    a.f("keys", keys);
  }
};
struct HCase {
  int pool = 24;
  std::vector<Cmd> cmds;
  template <class A> void io(A &a) {
    a.f("pool", pool);
    a.f("cmds", cmds);
  }
};
// keys: (font, glyph) pointers.  Consecutive integers in both components give sums that collide in the hash.
static void key_of(int k, void **font, void **glyph) {
  *font = (void *)(uintptr_t)(0x1000 + (k % 3) * 8);
  *glyph = (void *)(uintptr_t)(0x10 + (k / 3) * 8 - (k % 3) * 8 + (k % 3));  // font+glyph sums collide across k%3 up to +-2
}

static HCase gen_hist() {
  HCase h;
  bool small = CAPACITY <= 64;
  h.pool = small ? 2 * CAPACITY + 6 : 40;
  int pool = h.pool;
  h.cmds = vec(small ? 60 : 40, [pool, small] {
    Cmd c;
    c.op = pickw({3, 4, 8, 5, 4, 3, small ? 2 : 1, small ? 1 : 1});
    c.key = (int)R(0, pool - 1);
    c.img = gen_gimg();
    if (c.op == K_INSERT_BLOCK || c.op == K_REMOVE_BLOCK) {
      c.n = small ? (int)R(2, CAPACITY + 2) : (int)R(2, 30);
      c.key = (int)R(0, pool - 1);
    }
    if (c.op == K_DRAW) {
      int n = (int)R(1, 5);
      for (int i = 0; i < n; i++) c.keys.push_back(R(0, pool - 1));
    }
    return c;
  });
  return h;
}

struct MEntry {
  GImg img;
  const void *handle;
};

static Verdict run_hist(const HCase &h) {
  Verdict v;
  pixman_glyph_cache_t *cache = pixman_glyph_cache_create();
  if (!cache) {
    v.fail("glyph_cache_create returned NULL");
    return v;
  }
  std::map<int, MEntry> model;
  std::list<int> mru;  // most recently used first
  int frozen = 0;
  long removes_since_clear = 0;
  bool saw_full = false, saw_evict = false, saw_collision_remove = false;
  int max_size = 0;

  auto touch = [&](int k) {
    mru.remove(k);
    mru.push_front(k);
  };
  auto do_insert = [&](int k, const GImg &gi, int step) {
    void *f, *g;
    key_of(k, &f, &g);
    auto im = make_gimg(gi);
    const void *hd = pixman_glyph_cache_insert(cache, f, g, gi.ox, gi.oy, im->im);
    // the caller's image is modified and destroyed right away: the cache must hold its own copy
    memset(im->buf.p, 0x5a, im->buf.size);
    im.reset();
    if ((int)model.size() >= CAPACITY) {
      saw_full = true;
      if (hd) v.fail(fmt("step %d: insert into a full cache (%d entries, capacity %d) returned an entry", step, (int)model.size(), CAPACITY));
      return;
    }
    if (!hd) {
      v.fail(fmt("step %d: insert returned NULL although the cache holds %d of %d entries and is frozen", step, (int)model.size(), CAPACITY));
      return;
    }
    model[k] = MEntry{gi, hd};
    mru.push_front(k);
    max_size = std::max(max_size, (int)model.size());
  };
  auto do_remove = [&](int k) {
    void *f, *g;
    key_of(k, &f, &g);
    pixman_glyph_cache_remove(cache, f, g);
    if (model.count(k)) {
      model.erase(k);
      mru.remove(k);
      removes_since_clear++;
      if (model.size() >= 2) saw_collision_remove = true;
    }
  };
  // look every pool key up and compare with the model
  auto audit = [&](int step, const char *when) {
    for (int k = 0; k < h.pool && v.ok; k++) {
      void *f, *g;
      key_of(k, &f, &g);
      const void *hd = pixman_glyph_cache_lookup(cache, f, g);
      bool want = model.count(k) != 0;
      if ((hd != nullptr) != want) v.fail(fmt("step %d (%s): lookup(key %d) %s but the model %s it", step, when, k, hd ? "found an entry" : "returned NULL", want ? "has" : "does not have"));
      else if (want && hd != model[k].handle) v.fail(fmt("step %d (%s): lookup(key %d) returned a different entry than insert did", step, when, k));
    }
  };
  // draw one entry with SRC onto a scratch image and compare with the image it was inserted with
  auto verify_content = [&](int k, int step) {
    const MEntry &e = model[k];
    Bits db = gen_bits_fixed(fmt_index(PIXMAN_a8r8g8b8), e.img.w + 4, e.img.h + 4, 99);
    auto d1 = make_image(db), d2 = make_image(db);
    uint32_t white = 0xffffffff;
    pixman_image_t *src = pixman_image_create_bits(PIXMAN_a8r8g8b8, 1, 1, &white, 4);
    pixman_image_set_repeat(src, PIXMAN_REPEAT_NORMAL);
    pixman_glyph_t gl = {2 + e.img.ox, 2 + e.img.oy, e.handle};
    pixman_composite_glyphs_no_mask(PIXMAN_OP_SRC, src, d1->im, 0, 0, 0, 0, cache, 1, &gl);
    auto ref = make_gimg(e.img);
    pixman_format_code_t gf = GF[e.img.fmt];
    if (has_alpha(gf) && has_rgb(gf)) pixman_image_set_component_alpha(ref->im, 1);
    pixman_image_composite32(PIXMAN_OP_SRC, src, ref->im, d2->im, 0, 0, 0, 0, 2, 2, e.img.w, e.img.h);
    pixman_image_unref(src);
    if (memcmp(d1->buf.p, d2->buf.p, d1->buf.size) != 0) v.fail(fmt("step %d: the cached copy of key %d (%s %dx%d) no longer draws like the image that was inserted", step, k, FORMATS[fmt_index(gf)].name, e.img.w, e.img.h));
    pixman_box32_t ext;
    pixman_glyph_get_extents(cache, 1, &gl, &ext);
    if (ext.x1 != 2 || ext.y1 != 2 || ext.x2 != 2 + e.img.w || ext.y2 != 2 + e.img.h) v.fail(fmt("step %d: get_extents of key %d is (%d,%d)-(%d,%d), expected (2,2)-(%d,%d)", step, k, ext.x1, ext.y1, ext.x2, ext.y2, 2 + e.img.w, 2 + e.img.h));
    touch(k);
  };

  for (size_t si = 0; si < h.cmds.size() && v.ok; si++) {
    const Cmd &c = h.cmds[si];
    int step = (int)si;
    switch (c.op) {
    case K_FREEZE:
      pixman_glyph_cache_freeze(cache);
      frozen++;
      break;
    case K_THAW: {
      if (!frozen) break;
      int ng0, nt0, ag0, at0;
      pixman_verif_glyph_cache_stats(cache, &ng0, &nt0, &ag0, &at0);
      pixman_glyph_cache_thaw(cache);
      frozen--;
      if (frozen) break;
      // which entries survived?
      std::vector<int> order(mru.begin(), mru.end());  // most recent first
      size_t n = order.size(), alive = 0;
      std::vector<bool> there(n);
      for (size_t i = 0; i < n; i++) {
        void *f, *g;
        key_of(order[i], &f, &g);
        there[i] = pixman_glyph_cache_lookup(cache, f, g) != nullptr;
        alive += there[i];
      }
      // survivors must be a most-recently-used prefix
      for (size_t i = 0; i < n && v.ok; i++)
        if (there[i] != (i < alive)) v.fail(fmt("step %d: after thaw the surviving entries are not the most recently used ones (entry #%zu in recency order %s, %zu survive)", step, i, there[i] ? "survived" : "was evicted", alive));
      if (!v.ok) break;
      // with the true tombstone count (hook 4) the outcome is determined: nothing happens unless glyphs + tombstones
      // exceed the high-water mark; then the least recently used entries go until the low-water mark is reached (all
      // of them if the tombstones alone exceed the mark)
      {
        size_t expect = n;
        if ((long)ag0 + at0 > HIGH) {
          if (at0 > HIGH) expect = 0;
          else expect = std::min<size_t>(n, (size_t)LOW);
        }
        if (alive != expect) {
          v.fail(fmt("step %d: thaw with %d glyphs and %d tombstones (high %d, low %d) left %zu entries, expected %zu", step, ag0, at0, HIGH, LOW, alive, expect));
          break;
        }
      }
      if (alive == n) {
        // nothing evicted: wrong only if eviction was mandatory; it never is (tombstones are not observable), but the
        // cache may not stay above the high-water mark of live entries
        if ((long)n > HIGH) v.fail(fmt("step %d: %zu live entries after thaw, above the high-water mark %d", step, n, HIGH));
      } else {
        saw_evict = true;
        // entries disappear only when the cache was above its high-water mark: live + tombstones > HIGH, and tombstones
        // cannot exceed the number of removals since the table was last cleared
        if ((long)n + removes_since_clear <= HIGH)
          v.fail(fmt("step %d: thaw evicted entries although the cache held %zu entries and at most %ld tombstones (high-water mark %d)", step, n, removes_since_clear, HIGH));
        else if (alive == 0 && n > 0) {
          if (removes_since_clear <= HIGH) v.fail(fmt("step %d: thaw dropped every entry although at most %ld tombstones can exist (clearing needs more than %d)", step, removes_since_clear, HIGH));
          removes_since_clear = 0;
        } else if ((long)alive != std::min<long>((long)n, LOW))
          v.fail(fmt("step %d: thaw left %zu entries; eviction goes down to the low-water mark %d (had %zu)", step, alive, LOW, n));
        for (size_t i = alive; i < n; i++) model.erase(order[i]);
        mru.resize(alive);  // `order` is the recency list itself
        // evicted entries leave tombstones behind just like removed ones; they count towards the next thaw's
        // "above the high-water mark" (the implementation documents that it then dumps the whole table)
        if (alive > 0) removes_since_clear += (long)(n - alive);
      }
      audit(step, "after thaw");
      break;
    }
    case K_INSERT:
      if (!frozen || model.count(c.key)) break;  // callers look up first; inserting needs a frozen cache
      do_insert(c.key, c.img, step);
      break;
    case K_LOOKUP: {
      void *f, *g;
      key_of(c.key, &f, &g);
      const void *hd = pixman_glyph_cache_lookup(cache, f, g);
      bool want = model.count(c.key) != 0;
      if ((hd != nullptr) != want) v.fail(fmt("step %d: lookup(key %d) %s but the model %s it", step, c.key, hd ? "found an entry" : "returned NULL", want ? "has" : "does not have"));
      break;
    }
    case K_REMOVE: do_remove(c.key); break;
    case K_DRAW:
      for (auto k : c.keys)
        if (model.count((int)k) && v.ok) verify_content((int)k, step);
      break;
    case K_INSERT_BLOCK:
      if (!frozen) {
        pixman_glyph_cache_freeze(cache);
        frozen++;
      }
      for (int i = 0; i < c.n && v.ok; i++) {
        int k = (c.key + i) % h.pool;
        if (!model.count(k)) {
          GImg gi = c.img;
          gi.seed += (uint64_t)i;
          do_insert(k, gi, step);
        }
      }
      break;
    case K_REMOVE_BLOCK:
      for (int i = 0; i < c.n; i++) do_remove((c.key + i) % h.pool);
      break;
    }
    if (v.ok) {
      // state validity (hook 4): the cache's counters describe the table, and the table holds exactly the model's entries
      int ng, nt, ag, at;
      pixman_verif_glyph_cache_stats(cache, &ng, &nt, &ag, &at);
      if (ng != ag || nt != at) v.fail(fmt("step %d (%d): counters out of step with the table: n_glyphs %d (actual %d), n_tombstones %d (actual %d)", step, c.op, ng, ag, nt, at));
      else if (ag != (int)model.size()) v.fail(fmt("step %d: the table holds %d glyphs, the model %d", step, ag, (int)model.size()));
    }
    if (v.ok && (si % 7) == 6) audit(step, "periodic audit");
  }
  if (v.ok) audit((int)h.cmds.size(), "final audit");
  while (frozen-- > 0) pixman_glyph_cache_thaw(cache);
  pixman_glyph_cache_destroy(cache);
  v.nontrivial = saw_evict || saw_full || (saw_collision_remove && max_size >= 3);
  if (saw_full) v.label("table_full_reached");
  if (saw_evict) v.label("thaw_evicted");
  if (max_size > HIGH) v.label("above_high_water");
  return v;
}

// ================================================================ (b) drawing
struct DGlyph {
  GImg img;
  int x = 0, y = 0;
  template <class A> void io(A &a) {
    a.f("img", img);
    a.f("x", x);
    a.f("y", y);
  }
};
struct DCase {
  int op = 3, masked = 0, mask_fmt = 0;
  std::vector<DGlyph> glyphs;
  SImg src, dst;
  int sx = 0, sy = 0, dx = 0, dy = 0, mx = 0, my = 0, w = 8, h = 4;
  template <class A> void io(A &a) {
    a.f("op", op);
    a.f("masked", masked);
    a.f("mask_fmt", mask_fmt);
    a.f("glyphs", glyphs);
    a.f("src", src);
    a.f("dst", dst);
    a.f("sx", sx);
    a.f("sy", sy);
    a.f("dx", dx);
    a.f("dy", dy);
    a.f("mx", mx);
    a.f("my", my);
    a.f("w", w);
    a.f("h", h);
  }
};
// (a caller may ask for any mask format; the ones with alpha and colour in another channel order are component-alpha masks too)
static const pixman_format_code_t MF[] = {PIXMAN_a8, PIXMAN_a1, PIXMAN_a4, PIXMAN_a8r8g8b8, PIXMAN_a8b8g8r8, PIXMAN_b8g8r8a8, PIXMAN_r8g8b8a8};
static DCase gen_draw() {
  DCase c;
  c.op = coin(60) ? pick<int>({PIXMAN_OP_OVER, PIXMAN_OP_ADD, PIXMAN_OP_SRC, PIXMAN_OP_IN}) : (int)R(PIXMAN_OP_CLEAR, PIXMAN_OP_SATURATE);
  c.masked = coin(50);
  c.mask_fmt = pickw({4, 2, 2, 3, 1, 1, 1});
  c.dst.kind = 0;
  c.dst.bits = gen_bits(fmt_index(pick<pixman_format_code_t>({PIXMAN_a8r8g8b8, PIXMAN_x8r8g8b8, PIXMAN_r5g6b5, PIXMAN_a8, PIXMAN_a8b8g8r8, PIXMAN_b5g6r5, PIXMAN_a1, PIXMAN_r8g8b8})), 1, 1);
  c.dst.bits.w = (int)R(1, 30);
  c.dst.bits.h = (int)R(1, 10);
  if (coin(45)) {
    c.dst.has_clip = 1;
    c.dst.clip = gen_clip(c.dst.bits.w, c.dst.bits.h, 4);
  }
  GenOpts o;
  o.gradients = true;
  c.src = gen_source(o, c.dst.bits.w, c.dst.bits.h, false);
  if (c.src.kind == 0 && coin(50)) c.src.repeat = 1;
  int W = c.dst.bits.w, H = c.dst.bits.h;
  c.glyphs = vec(12, [W, H] {
    DGlyph g;
    g.img = gen_gimg();
    g.x = (int)R(-6, W + 4);
    g.y = (int)R(-4, H + 3);
    return g;
  });
  if (c.glyphs.empty()) c.glyphs.push_back(DGlyph{gen_gimg(), 1, 1});
  c.sx = (int)R(-3, 5);
  c.sy = (int)R(-2, 3);
  c.dx = (int)R(-3, 5);
  c.dy = (int)R(-2, 3);
  c.mx = (int)R(-3, 5);
  c.my = (int)R(-2, 3);
  c.w = (int)R(1, W + 4);
  c.h = (int)R(1, H + 3);
  return c;
}

static Verdict run_draw(const DCase &c) {
  Verdict v;
  // The reference route issues one composite per glyph (or one for the whole mask): a transformed source must be drawable
  // for each of those rectangles, otherwise the library drops that composite (C04) while the glyph entry points, which do
  // not analyse extents per glyph, still draw -- a difference at the edge of the representable range, not a glyph property
  if (c.src.has_transform) {
    bool ok = true;
    if (c.masked) ok = transform_in_domain(c.src, c.sx, c.sy, c.w, c.h);
    for (auto &g : c.glyphs) {
      int gx = c.dx + g.x - g.img.ox, gy = c.dy + g.y - g.img.oy;
      ok = ok && transform_in_domain(c.src, c.sx + gx - c.dx, c.sy + gy - c.dy, g.img.w, g.img.h);
    }
    if (!ok) {
      v.label("skipped_source_transform_outside_representable_range");
      return v;
    }
  }
  acclog().n = 0;  // accessor address ranges are per case (build_img registers them)
  acclog().calls = acclog().bad = 0;
  pixman_glyph_cache_t *cache = pixman_glyph_cache_create();
  pixman_glyph_cache_freeze(cache);
  std::vector<pixman_glyph_t> gl;
  std::vector<std::unique_ptr<Image>> refs;
  for (size_t i = 0; i < c.glyphs.size(); i++) {
    const DGlyph &g = c.glyphs[i];
    auto im = make_gimg(g.img);
    const void *hd = pixman_glyph_cache_insert(cache, (void *)(uintptr_t)0x100, (void *)(uintptr_t)(0x1000 + i * 16), g.img.ox, g.img.oy, im->im);
    if (!hd) {
      v.fail("glyph insert failed");
      break;
    }
    gl.push_back(pixman_glyph_t{g.x, g.y, hd});
    // reference copy of the glyph image with the component-alpha rule of the cache
    auto ref = make_gimg(g.img);
    pixman_format_code_t gf = GF[g.img.fmt];
    if (has_alpha(gf) && has_rgb(gf)) pixman_image_set_component_alpha(ref->im, 1);
    refs.push_back(std::move(ref));
    memset(im->buf.p, 0xa5, im->buf.size);  // the original changes after insertion
  }
  BuiltImg s1, s2, d1, d2;
  build_img(c.src, s1, false);
  build_img(c.src, s2, false);
  build_img(c.dst, d1, true);
  build_img(c.dst, d2, true);
  if (v.ok && s1.im && s2.im && d1.im && d2.im) {
    if (!c.masked) {
      pixman_composite_glyphs_no_mask((pixman_op_t)c.op, s1.im, d1.im, c.sx, c.sy, c.dx, c.dy, cache, (int)gl.size(), gl.data());
      for (size_t i = 0; i < gl.size(); i++) {
        const GImg &gi = c.glyphs[i].img;
        int gx = c.dx + c.glyphs[i].x - gi.ox, gy = c.dy + c.glyphs[i].y - gi.oy;
        pixman_image_composite32((pixman_op_t)c.op, s2.im, refs[i]->im, d2.im, c.sx + gx - c.dx, c.sy + gy - c.dy, 0, 0, gx, gy, gi.w, gi.h);
      }
    } else {
      pixman_format_code_t mf = MF[c.mask_fmt];
      pixman_composite_glyphs((pixman_op_t)c.op, s1.im, d1.im, mf, c.sx, c.sy, c.mx, c.my, c.dx, c.dy, c.w, c.h, cache, (int)gl.size(), gl.data());
      // reference: ADD-accumulate (white IN glyph) into a zeroed mask, then one composite
      Bits mb = gen_bits_fixed(fmt_index(mf), c.w, c.h, 1);
      mb.fill = FILL_ZERO;
      auto mask = make_image(mb);
      if (has_alpha(mf) && has_rgb(mf)) pixman_image_set_component_alpha(mask->im, 1);
      pixman_color_t wc = {0xffff, 0xffff, 0xffff, 0xffff};
      pixman_image_t *white = pixman_image_create_solid_fill(&wc);
      for (size_t i = 0; i < gl.size(); i++) {
        const GImg &gi = c.glyphs[i].img;
        pixman_image_composite32(PIXMAN_OP_ADD, white, refs[i]->im, mask->im, 0, 0, 0, 0, c.glyphs[i].x - gi.ox - c.mx, c.glyphs[i].y - gi.oy - c.my, gi.w, gi.h);
      }
      pixman_image_unref(white);
      pixman_image_composite32((pixman_op_t)c.op, s2.im, mask->im, d2.im, c.sx, c.sy, 0, 0, c.dx, c.dy, c.w, c.h);
    }
    // compare the destinations on defined bits (everything else, incl. padding, bit for bit)
    const Image &a = *d1.bits, &b = *d2.bits;
    pixman_format_code_t df = a.d.code();
    uint32_t dm = defined_mask(df);
    for (int y = 0; y < a.d.h && v.ok; y++) {
      for (int x = 0; x < a.d.w && v.ok; x++) {
        uint32_t pa = raw_get(a.rowp(y), bpp(df), x), pb = raw_get(b.rowp(y), bpp(df), x);
        if ((pa & dm) != (pb & dm)) {
          // known finding S20: composite_glyphs_no_mask does not run the operator reduction that composite32 does, so
          // SATURATE with an opaque source is evaluated in floating point there and as OVER_REVERSE in 8 bits here
          if (!c.masked && c.op == PIXMAN_OP_SATURATE) {
            Ch ca = unpack(df, pa), cb = unpack(df, pb);
            // (two steps at most: a source or glyph format with fewer than 8 bits per channel is widened as v/(2^n-1) by
            // the float pipeline and by bit replication by the 8-bit one, on top of the different rounding)
            bool small = std::abs((int)ca.a - (int)cb.a) <= 2 && std::abs((int)ca.r - (int)cb.r) <= 2 && std::abs((int)ca.g - (int)cb.g) <= 2 && std::abs((int)ca.b - (int)cb.b) <= 2;
            if (small) v.known = "S20";
          }
          v.fail(fmt("%s(op %d%s) differs from %s at (%d,%d): %x vs %x [%zu glyphs, dest %s]", c.masked ? "composite_glyphs" : "composite_glyphs_no_mask", c.op,
                     c.masked ? fmt(", mask %s", FORMATS[fmt_index(MF[c.mask_fmt])].name).c_str() : "", c.masked ? "ADD-accumulated mask + composite" : "per-glyph compositing", x, y, pa & dm, pb & dm,
                     gl.size(), FORMATS[a.d.fmt].name));
        }
      }
      int rb = row_bytes(df, a.d.w);
      if (v.ok && memcmp(a.rowp(y) + rb, b.rowp(y) + rb, (size_t)(a.d.stride() - rb)) != 0) v.fail("row padding differs");
    }
  }
  // overlap / format mix for the non-trivial rule
  std::set<int> fmts;
  bool overlap = false;
  for (size_t i = 0; i < c.glyphs.size(); i++) {
    fmts.insert(c.glyphs[i].img.fmt);
    for (size_t j = 0; j < i; j++) {
      const DGlyph &p = c.glyphs[i], &q = c.glyphs[j];
      int px = p.x - p.img.ox, py = p.y - p.img.oy, qx = q.x - q.img.ox, qy = q.y - q.img.oy;
      if (px < qx + q.img.w && qx < px + p.img.w && py < qy + q.img.h && qy < py + p.img.h) overlap = true;
    }
  }
  v.nontrivial = overlap && fmts.size() >= 2;
  v.label(c.masked ? "masked" : "no_mask");
  if (c.dst.has_clip) v.label("dest_clip");
  pixman_glyph_cache_thaw(cache);
  // destroy explicitly ordered: images first
  refs.clear();
  pixman_glyph_cache_destroy(cache);
  return v;
}

// the same machinery at the real capacity: fill the table completely, look up an absent key, remove, thaw
static HCase gen_big() {
  HCase h;
  h.pool = CAPACITY + 64;
  auto C = [](int op, int key, int n) {
    Cmd c;
    c.op = op;
    c.key = key;
    c.n = n;
    c.img.fmt = 0;
    c.img.w = c.img.h = 1;
    return c;
  };
  int start = (int)R(0, h.pool - 1);
  h.cmds.push_back(C(K_FREEZE, 0, 0));
  h.cmds.push_back(C(K_INSERT_BLOCK, start, CAPACITY - (int)R(0, 3)));
  h.cmds.push_back(C(K_INSERT_BLOCK, (start + CAPACITY - 3) % h.pool, (int)R(2, 8)));  // runs into the capacity limit
  for (int i = 0; i < 4; i++) h.cmds.push_back(C(K_LOOKUP, (int)R(0, h.pool - 1), 0));
  h.cmds.push_back(C(K_REMOVE_BLOCK, (int)R(0, h.pool - 1), (int)R(1, 400)));
  for (int i = 0; i < 3; i++) h.cmds.push_back(C(K_LOOKUP, (int)R(0, h.pool - 1), 0));
  h.cmds.push_back(C(K_INSERT_BLOCK, (int)R(0, h.pool - 1), (int)R(1, 300)));
  h.cmds.push_back(C(K_THAW, 0, 0));
  h.cmds.push_back(C(K_FREEZE, 0, 0));
  h.cmds.push_back(C(K_INSERT_BLOCK, (int)R(0, h.pool - 1), (int)R(1, 300)));
  h.cmds.push_back(C(K_THAW, 0, 0));
  return h;
}

static void register_props() {
  add_prop<HCase>("cache", gen_hist, run_hist);
  add_prop<HCase>("bigcache", gen_big, run_hist);
  add_prop<DCase>("draw", gen_draw, run_draw);
}
VF_MAIN()
