// C20: image lifetime — resources released exactly once, when the last reference goes (DESIGN.md §4 C20).
// State machine over a pool of images against a reference-count model; built with ASan (use-after-free / double free)
// and with the allocation shims (live-block counter of the library's own allocations).
#include "scene.hpp"
using namespace vf;
using namespace img;
using namespace scene;

#ifdef VF_HAVE_ALLOC_HOOKS
extern "C" {
extern long vf_alloc_live;
}
static long live_blocks() { return vf_alloc_live; }
#else
static long live_blocks() { return 0; }
#endif

enum { L_CREATE, L_REF, L_UNREF, L_SET_DESTROY, L_ALPHA_MAP, L_CLIP, L_TRANSFORM, L_FILTER, L_INDEXED, L_GLYPH_INSERT, L_GLYPH_REMOVE, L_DRAW, L_N };
struct Cmd {
  int op = 0, slot = 0, other = 0, a = 0;
  template <class A> void io(A &ar) {
    ar.f("op", op);
    ar.f("slot", slot);
    ar.f("other", other);
    ar.f("a", a);
  }
};
struct LCase {
  std::vector<Cmd> cmds;
  template <class A> void io(A &ar) { ar.f("cmds", cmds); }
};
static const int NSLOT = 6;
static LCase gen_case() {
  LCase c;
  // a few images first (mostly bits, which can be alpha maps), then the random history
  int ncreate = (int)R(2, 5);
  for (int i = 0; i < ncreate; i++) {
    Cmd m;
    m.op = L_CREATE;
    m.slot = i;
    m.a = coin(65) ? (int)R(0, 1) : (int)R(2, 6);
    c.cmds.push_back(m);
    if (coin(50)) {
      Cmd d;
      d.op = L_SET_DESTROY;
      d.slot = i;
      c.cmds.push_back(d);
    }
  }
  auto rest = vec(50, [] {
    Cmd m;
    m.op = pickw({8, 4, 8, 4, 8, 3, 2, 3, 1, 2, 1, 3});
    m.slot = (int)R(0, NSLOT - 1);
    m.other = (int)R(-1, NSLOT - 1);
    m.a = (int)R(0, 7);
    return m;
  });
  c.cmds.insert(c.cmds.end(), rest.begin(), rest.end());
  return c;
}

struct Slot {
  bool alive = false;
  pixman_image_t *im = nullptr;
  int kind = 0;       // 0 bits (library buffer), 1 bits (caller buffer), 2 solid, 3 linear, 4 radial, 5 conical, 6 indexed c8
  int user_refs = 0;
  int amap = -1;      // slot attached as this image's alpha map
  int held_by = 0;    // how many live images hold this one as their alpha map
  int cb_tag = -1;    // current destroy-callback tag (-1 none)
  std::vector<uint32_t> buf;  // caller-owned pixels
  std::unique_ptr<pixman_indexed_t> pal;
};

static std::map<int, int> g_cb_fired;          // tag -> times fired
static std::map<int, pixman_image_t *> g_cb_img;  // tag -> image it was installed on
static std::string g_cb_error;
static void destroy_cb(pixman_image_t *image, void *data) {
  int tag = (int)(intptr_t)data;
  g_cb_fired[tag]++;
  auto it = g_cb_img.find(tag);
  if (it == g_cb_img.end() || it->second != image) g_cb_error = "destroy callback called with the wrong image/data pair";
  // the image must still be intact while the callback runs
  if (pixman_image_get_width(image) < 0) g_cb_error = "image not intact in destroy callback";
}

static Verdict run_case(const LCase &c) {
  Verdict v;
  g_cb_fired.clear();
  g_cb_img.clear();
  g_cb_error.clear();
  long base = live_blocks();
  Slot S[NSLOT];
  int next_tag = 1;
  pixman_glyph_cache_t *cache = pixman_glyph_cache_create();
  pixman_glyph_cache_freeze(cache);
  std::set<int> glyph_keys;
  long base_with_cache = live_blocks();
  (void)base_with_cache;
  bool nt_map_unref_before_owner = false, nt_replace_twice = false;
  std::map<int, int> filter_sets;
  uint32_t scratch_px[64];
  pixman_image_t *scratch = pixman_image_create_bits(PIXMAN_a8r8g8b8, 8, 8, scratch_px, 32);

  // model: an image is freed when user_refs == 0 and held_by == 0
  std::function<void(int, int)> model_release;  // slot, step: called when the real library is expected to free it
  std::vector<int> expect_fired;                // tags that must have fired so far
  model_release = [&](int s, int step) {
    Slot &x = S[s];
    x.alive = false;
    if (x.cb_tag >= 0) expect_fired.push_back(x.cb_tag);
    int m = x.amap;
    x.amap = -1;
    x.im = nullptr;
    if (m >= 0) {
      S[m].held_by--;
      if (S[m].user_refs == 0 && S[m].held_by == 0 && S[m].alive) model_release(m, step);
    }
  };
  auto check_callbacks = [&](int step) {
    if (!g_cb_error.empty()) v.fail(fmt("step %d: %s", step, g_cb_error.c_str()));
    for (int t : expect_fired) {
      int n = g_cb_fired.count(t) ? g_cb_fired[t] : 0;
      if (n != 1) v.fail(fmt("step %d: destroy callback #%d fired %d times, expected exactly once", step, t, n));
    }
    for (auto &kv : g_cb_fired)
      if (std::find(expect_fired.begin(), expect_fired.end(), kv.first) == expect_fired.end())
        v.fail(fmt("step %d: destroy callback #%d fired although its image still has references", step, kv.first));
  };
  auto draw_with = [&](int s) {
    if (!S[s].alive) return;
    pixman_image_composite32(PIXMAN_OP_OVER, S[s].im, nullptr, scratch, 0, 0, 0, 0, 0, 0, 8, 8);
  };

  for (size_t ci = 0; ci < c.cmds.size() && v.ok; ci++) {
    const Cmd &m = c.cmds[ci];
    int step = (int)ci;
    Slot &x = S[m.slot];
    switch (m.op) {
    case L_CREATE: {
      if (x.alive) break;
      x = Slot();
      if (m.a >= 7) {
        // a constructor call that is refused (size whose storage overflows; stride that is not a multiple of four; a
        // format code deeper than its pixel): NULL, and nothing may stay allocated
        long before = live_blocks();
        uint32_t scratch[8] = {0};
        pixman_image_t *r = nullptr;
        switch (m.slot % 3) {
        case 0: r = pixman_image_create_bits(PIXMAN_a8r8g8b8, 0x40000000, 64, nullptr, 0); break;
        case 1: r = pixman_image_create_bits(PIXMAN_r5g6b5, 3, 2, scratch, 6); break;
        default: r = pixman_image_create_bits((pixman_format_code_t)PIXMAN_FORMAT(8, PIXMAN_TYPE_ARGB, 8, 8, 8, 8), 2, 2, scratch, 4); break;
        }
        if (r) {
          v.fail(fmt("step %d: an invalid pixman_image_create_bits request was accepted", step));
          pixman_image_unref(r);
        } else if (live_blocks() != before)
          v.fail(fmt("step %d: a refused pixman_image_create_bits call left %ld allocation(s) behind", step, live_blocks() - before));
        v.label("refused_constructor");
        break;
      }
      x.kind = m.a % 7;
      pixman_gradient_stop_t st[2] = {{0, {0xffff, 0, 0, 0xffff}}, {65536, {0, 0, 0xffff, 0x8000}}};
      pixman_point_fixed_t p1 = {0, 0}, p2 = {8 << 16, 4 << 16};
      switch (x.kind) {
      case 0: x.im = pixman_image_create_bits(PIXMAN_a8r8g8b8, 6, 5, nullptr, 0); break;
      case 1:
        x.buf.assign(30, 0x80402010);
        x.im = pixman_image_create_bits(PIXMAN_a8r8g8b8, 6, 5, x.buf.data(), 24);
        break;
      case 2: {
        pixman_color_t col = {0x1234, 0x5678, 0x9abc, 0xdef0};
        x.im = pixman_image_create_solid_fill(&col);
        break;
      }
      case 3: x.im = pixman_image_create_linear_gradient(&p1, &p2, st, 2); break;
      case 4: x.im = pixman_image_create_radial_gradient(&p1, &p2, 0, 5 << 16, st, 2); break;
      case 5: x.im = pixman_image_create_conical_gradient(&p1, 45 << 16, st, 2); break;
      default:
        x.buf.assign(16, 0x03020100);
        x.im = pixman_image_create_bits(PIXMAN_c8, 8, 8, x.buf.data(), 8);
        break;
      }
      if (!x.im) {
        v.fail(fmt("step %d: constructor returned NULL without an allocation failure", step));
        break;
      }
      x.alive = true;
      x.user_refs = 1;
      break;
    }
    case L_REF:
      if (!x.alive || x.user_refs == 0) break;
      if (pixman_image_ref(x.im) != x.im) v.fail(fmt("step %d: pixman_image_ref did not return the image", step));
      x.user_refs++;
      break;
    case L_UNREF: {
      if (!x.alive || x.user_refs == 0) break;
      bool last = x.user_refs == 1 && x.held_by == 0;
      if (x.user_refs == 1 && x.held_by > 0) nt_map_unref_before_owner = true;
      pixman_bool_t r = pixman_image_unref(x.im);
      x.user_refs--;
      if ((bool)r != last) v.fail(fmt("step %d: unref returned %d, but %s (user refs left %d, held as alpha map by %d)", step, (int)r, last ? "this was the last reference" : "references remain", x.user_refs, x.held_by));
      if (last) model_release(m.slot, step);
      break;
    }
    case L_SET_DESTROY:
      if (!x.alive || x.user_refs == 0) break;
      x.cb_tag = next_tag++;
      g_cb_img[x.cb_tag] = x.im;
      pixman_image_set_destroy_function(x.im, destroy_cb, (void *)(intptr_t)x.cb_tag);
      break;
    case L_ALPHA_MAP: {
      if (!x.alive || x.user_refs == 0) break;
      int o = m.other;
      if (o >= 0 && (!S[o].alive || S[o].kind > 1 || o == m.slot)) break;  // maps are bits images; no self reference
      pixman_image_t *map = o >= 0 ? S[o].im : nullptr;
      pixman_image_set_alpha_map(x.im, map, (int16_t)(m.a - 3), (int16_t)(m.a % 3));
      // model of the documented rules: an image that is used as a map cannot get a map; an image that has a map cannot
      // be used as one
      bool refused = false;
      if (o >= 0 && x.held_by > 0) refused = true;
      if (o >= 0 && S[o].amap >= 0) refused = true;
      if (!refused && x.amap != o) {
        int old = x.amap;
        x.amap = o;
        if (o >= 0) S[o].held_by++;
        if (old >= 0) {
          S[old].held_by--;
          if (S[old].user_refs == 0 && S[old].held_by == 0 && S[old].alive) model_release(old, step);
        }
      }
      if (refused) v.label("alpha_map_chain_refused");
      break;
    }
    case L_CLIP: {
      if (!x.alive || x.user_refs == 0) break;
      pixman_box32_t bx[3] = {{0, 0, 3, 3}, {2, 2, 6, 5}, {0, 4, 1, 5}};
      pixman_region32_t r;
      pixman_region32_init_rects(&r, bx, 1 + m.a % 3);
      if (!pixman_image_set_clip_region32(x.im, m.a == 7 ? nullptr : &r)) v.fail(fmt("step %d: set_clip_region32 failed", step));
      pixman_region32_fini(&r);
      if (m.other >= 3) {
        // ... and through the 16-bit entry point, which converts into the image's region (replacing whatever it held)
        // rectangle counts on both sides of the converter's on-stack array (16 boxes)
        static const int counts[8] = {1, 2, 3, 15, 16, 17, 18, 40};
        int n16 = counts[(m.a + m.other) % 8];
        std::vector<pixman_box16_t> b16;
        for (int i = 0; i < n16; i++) b16.push_back(pixman_box16_t{(int16_t)(i & 1), (int16_t)(2 * i), (int16_t)(3 + (i & 1)), (int16_t)(2 * i + 1)});
        pixman_region16_t r16;
        pixman_region_init_rects(&r16, b16.data(), n16);
        if (!pixman_image_set_clip_region(x.im, &r16)) v.fail(fmt("step %d: set_clip_region failed", step));
        pixman_region_fini(&r16);
      }
      break;
    }
    case L_TRANSFORM: {
      if (!x.alive || x.user_refs == 0) break;
      pixman_transform_t t;
      pixman_transform_init_scale(&t, 65536 + m.a * 1000, 65536);
      // back to "no transform" either way: NULL, or an explicit identity matrix (seeded C20t)
      if (m.a == 1) pixman_transform_init_identity(&t);
      if (!pixman_image_set_transform(x.im, m.a == 0 ? nullptr : &t)) v.fail(fmt("step %d: set_transform failed", step));
      break;
    }
    case L_FILTER: {
      if (!x.alive || x.user_refs == 0) break;
      pixman_fixed_t params[11] = {3 << 16, 3 << 16, 0, 0, 0, 0, 65536, 0, 0, 0, 0};
      pixman_bool_t ok;
      if (m.a == 7) {
        // a parameter count whose byte size does not fit: refused before anything is allocated or read; the image keeps
        // (and later releases, once) whatever kernel it had (seeded C20v)
        if (pixman_image_set_filter(x.im, PIXMAN_FILTER_CONVOLUTION, params, 0x20000000)) v.fail(fmt("step %d: set_filter accepted 2^29 parameters", step));
        v.label("set_filter_refused");
        break;
      }
      if (m.a % 3 == 0) ok = pixman_image_set_filter(x.im, PIXMAN_FILTER_CONVOLUTION, params, 11);
      else if (m.a % 3 == 1) ok = pixman_image_set_filter(x.im, PIXMAN_FILTER_BILINEAR, nullptr, 0);
      else {
        params[6] = 32768;
        params[7] = 32768;
        ok = pixman_image_set_filter(x.im, PIXMAN_FILTER_CONVOLUTION, params, 11);
      }
      if (!ok) v.fail(fmt("step %d: set_filter failed", step));
      if (++filter_sets[m.slot] >= 2) nt_replace_twice = true;
      break;
    }
    case L_INDEXED:
      if (!x.alive || x.user_refs == 0 || x.kind != 6) break;
      x.pal.reset(new pixman_indexed_t);
      make_palette(x.pal.get(), PIXMAN_c8, (uint64_t)m.a);
      pixman_image_set_indexed(x.im, x.pal.get());
      break;
    case L_GLYPH_INSERT: {
      if (!x.alive || x.user_refs == 0 || x.kind > 1) break;
      int key = m.slot * 8 + m.a;
      if (glyph_keys.count(key)) break;
      if (!pixman_glyph_cache_insert(cache, (void *)(uintptr_t)0x40, (void *)(uintptr_t)(0x100 + key * 8), 0, 0, x.im)) v.fail(fmt("step %d: glyph insert failed", step));
      glyph_keys.insert(key);  // the cache keeps a copy: no reference on the pool image
      break;
    }
    case L_GLYPH_REMOVE: {
      int key = m.slot * 8 + m.a;
      pixman_glyph_cache_remove(cache, (void *)(uintptr_t)0x40, (void *)(uintptr_t)(0x100 + key * 8));
      glyph_keys.erase(key);
      break;
    }
    case L_DRAW:
      if (x.alive && x.user_refs > 0 && !(x.kind == 6 && !x.pal)) draw_with(m.slot);
      break;
    }
    if (v.ok) check_callbacks(step);
  }
  // drain the pool: drop every user reference; maps that are only held by owners go with their owners
  for (int s = 0; s < NSLOT && v.ok; s++) {
    while (S[s].alive && S[s].user_refs > 0) {
      bool last = S[s].user_refs == 1 && S[s].held_by == 0;
      pixman_bool_t r = pixman_image_unref(S[s].im);
      S[s].user_refs--;
      if ((bool)r != last) v.fail(fmt("drain: unref(slot %d) returned %d, expected %d", s, (int)r, (int)last));
      if (last) model_release(s, 999);
    }
  }
  if (v.ok) check_callbacks(999);
  for (int s = 0; s < NSLOT && v.ok; s++)
    if (S[s].alive) v.fail(fmt("drain: slot %d should have been released (model bug or leak)", s));
  pixman_glyph_cache_thaw(cache);
  pixman_glyph_cache_destroy(cache);
  pixman_image_unref(scratch);
  if (v.ok && live_blocks() != base) v.fail(fmt("%ld allocation(s) of the library still live after every image and the glyph cache were released", live_blocks() - base));
  v.nontrivial = nt_map_unref_before_owner || nt_replace_twice;
  if (nt_map_unref_before_owner) v.label("map_unreffed_before_owner");
  if (nt_replace_twice) v.label("owned_buffer_replaced_twice");
  return v;
}

static void register_props() { add_prop<LCase>("lifetime", gen_case, run_case); }
VF_MAIN()
