// C09: opacity-based operator and path simplifications never change the picture (DESIGN.md §4 C09).
// Metamorphic: the same fully opaque content presented as x8r8g8b8, a8r8g8b8 with alpha 255, r5g6b5, a solid colour or
// a 1x1 repeating image — for source, mask or destination — must give the same destination.
#include "scene.hpp"
using namespace vf;
using namespace img;
using namespace scene;

enum SrcPres { SP_ARGB, SP_XRGB, SP_565, SP_SOLID, SP_1x1_ARGB, SP_1x1_XRGB, SP_XBGR, SP_N };
// (the last three hold one component-alpha colour with alpha 1 -- not white --, as image, solid and 1x1 repeating image:
// presentations of each other only, never of "no mask")
enum MaskPres { MP_NONE, MP_A8, MP_XRGB, MP_SOLID, MP_1x1, MP_ARGB_CA, MP_N, MP_CA_BITS_C = MP_N, MP_CA_SOLID_C, MP_CA_1x1_C };
enum DstPres { DP_ARGB, DP_XRGB, DP_XRGB_REPEAT, DP_565, DP_565_REPEAT, DP_N };
static const char *SPN[] = {"a8r8g8b8(a=255)", "x8r8g8b8", "r5g6b5", "solid", "1x1 a8r8g8b8 repeat", "1x1 x8r8g8b8 repeat", "x8b8g8r8"};
static const char *MPN[] = {"none", "a8=ff", "x8r8g8b8", "solid white", "1x1 a8=ff repeat", "a8r8g8b8=ffffffff CA", "a8r8g8b8 colour CA", "solid colour CA", "1x1 colour CA repeat"};
static const char *DPN[] = {"a8r8g8b8(a=255)", "x8r8g8b8", "x8r8g8b8+repeat", "r5g6b5", "r5g6b5+repeat"};

struct OCase {
  Scene sc;          // geometry, transform, filter, repeat of the source; op; mask geometry
  int role = 0;      // 0 source, 1 mask, 2 destination presentations are varied
  int pa = 0, pb = 1;
  int sp = 0, mp = 0, dp = 0;  // the presentations of the roles that are not varied
  int uniform = 0, c565 = 0;
  uint64_t cseed = 0;
  template <class A> void io(A &a) {
    a.f("sc", sc);
    a.f("role", role);
    a.f("pa", pa);
    a.f("pb", pb);
    a.f("sp", sp);
    a.f("mp", mp);
    a.f("dp", dp);
    a.f("uniform", uniform);
    a.f("c565", c565);
    a.f("cseed", cseed);
  }
};

static bool sp_uniform(int p) { return p == SP_SOLID || p == SP_1x1_ARGB || p == SP_1x1_XRGB; }
static bool sp_565(int p) { return p == SP_565; }
static bool dp_565(int p) { return p == DP_565 || p == DP_565_REPEAT; }

static OCase gen_case() {
  OCase c;
  Scene &sc = c.sc;
  static const std::vector<int> OPS = [] {
    std::vector<int> v;
    for (int o = PIXMAN_OP_CLEAR; o <= PIXMAN_OP_SATURATE; o++) v.push_back(o);
    for (int o = PIXMAN_OP_DISJOINT_CLEAR; o <= PIXMAN_OP_DISJOINT_XOR; o++) v.push_back(o);
    for (int o = PIXMAN_OP_CONJOINT_CLEAR; o <= PIXMAN_OP_CONJOINT_XOR; o++) v.push_back(o);
    for (int o = PIXMAN_OP_MULTIPLY; o <= PIXMAN_OP_HSL_LUMINOSITY; o++) v.push_back(o);
    return v;
  }();
  // OVER is the operator that is reduced most often (and has the most special paths): a fifth of all cases
  sc.op = coin(20) ? (int)PIXMAN_OP_OVER : coin(65) ? (int)R(PIXMAN_OP_CLEAR, PIXMAN_OP_SATURATE) : pickv(OPS);
  sc.w = coin(40) ? WIDTHS[R(0, 11)] : (int)R(1, 40);
  sc.h = (int)R(1, 4);
  sc.dst.bits = gen_bits(0, 1, 1);
  sc.dst.bits.w = sc.w + (int)R(0, 3);
  sc.dst.bits.h = sc.h + (int)R(0, 1);
  sc.dx = (int)R(0, sc.dst.bits.w - sc.w);
  sc.dy = (int)R(0, sc.dst.bits.h - sc.h);
  SImg &s = sc.src;
  s.kind = 0;
  s.bits = gen_bits(0, 1, 1);
  s.bits.w = std::max(1, sc.w + (int)R(-3, 5));
  s.bits.h = std::max(1, sc.h + (int)R(-2, 3));
  s.repeat = (int)R(0, 3);
  if (coin(45)) {
    s.has_transform = 1;
    s.m = gen_transform(pickw({2, 3, 4, 2, 3, 1}), s.bits.w, s.bits.h);
    s.filter = pickw({5, 5, 1, 2});
    if (s.filter == 2) {
      s.kw = (int)R(1, 3);
      s.kh = (int)R(1, 3);
    }
    if (s.filter == 3) {
      s.kw = (int)R(1, 4);
      s.kh = (int)R(1, 4);
      s.kbx = (int)R(0, 2);
      s.kby = (int)R(0, 2);
    }
    s.kseed = seed64();
    s.kneg = 0;  // non-negative kernels keep opaque content opaque ...
    // ... when they sum to one.  A kernel that sums to less makes an alpha-less image translucent (its alpha reads as the
    // kernel sum), so the a8r8g8b8(a=255) presentation stays the reference and the "opaque" shortcuts must not fire.
    if (coin(30)) s.ksum = (int)R(40, 99);  // (reset below when a solid presentation is involved)
  }
  sc.sx = (int)R(-3, 4);  // partly outside a REPEAT_NONE source
  sc.sy = (int)R(-2, 2);
  if (!s.has_transform && coin(45)) {
    // ... or completely inside it: what the untransformed whole-operation paths require
    sc.sx = (int)R(0, 3);
    sc.sy = (int)R(0, 2);
    s.bits.w = sc.sx + sc.w + (int)R(0, 3);
    s.bits.h = sc.sy + sc.h + (int)R(0, 2);
  }
  sc.has_mask = 1;
  sc.mask.kind = 0;
  sc.mask.bits = gen_bits(fmt_index(PIXMAN_a8), 1, 1);
  sc.mask.bits.w = sc.w + (int)R(0, 4);
  sc.mask.bits.h = sc.h + (int)R(0, 2);
  sc.mx = (int)R(0, sc.mask.bits.w - sc.w);
  sc.my = (int)R(0, sc.mask.bits.h - sc.h);
  if (coin(30)) {
    // a scaled mask whose samples (and their bilinear neighbours) all lie inside it: an alpha-less mask format is then
    // "opaque" for the lookup, an a8 mask of 0xff is not (bits masks hold opaque white everywhere, so every presentation
    // still means "no mask")
    SImg &m = sc.mask;
    m.has_transform = 1;
    m.m = {65536, 0, 0, 0, 65536, 0, 0, 0, 65536};
    m.m[0] = coin(50) ? pick<int64_t>({32768, 98304, 43691, 131072, 65536}) : R(20000, 150000);
    m.m[4] = coin(50) ? m.m[0] : R(20000, 150000);
    m.filter = pickw({3, 7});
    sc.mx = (int)R(0, 3);
    sc.my = (int)R(0, 2);
    fit_cover(m.m[0], sc.mx, sc.w, m.bits.w, m.m[2]);
    fit_cover(m.m[4], sc.my, sc.h, m.bits.h, m.m[5]);
    m.repeat = coin(60) ? 0 : (int)R(1, 3);
  }
  c.role = pickw({5, 3, 4});
  c.sp = (int)R(0, SP_N - 1);
  c.mp = (int)R(0, MP_N - 1);
  c.dp = coin(25) ? (int)DP_ARGB : (int)R(0, DP_N - 1);  // (only destinations with an alpha channel show a wrong alpha)
  if (c.role == 0) {
    c.pa = SP_ARGB;  // the un-optimised reference inside each pair
    c.pb = coin(30) ? (int)(coin(50) ? SP_XRGB : SP_XBGR) : (int)R(1, SP_N - 1);
    if (coin(20)) c.pa = (int)R(0, SP_N - 1);
  } else if (c.role == 1 && coin(25)) {
    c.pa = MP_CA_BITS_C;
    c.pb = coin(60) ? MP_CA_SOLID_C : MP_CA_1x1_C;
  } else if (c.role == 1) {
    c.pa = coin(60) ? MP_NONE : (int)R(0, MP_N - 1);
    c.pb = (int)R(1, MP_N - 1);
  } else {
    c.pa = DP_ARGB;
    c.pb = (int)R(1, DP_N - 1);
    if (dp_565(c.pb)) c.pa = DP_565;  // 565 destinations are compared with 565 destinations
  }
  int sa = c.role == 0 ? c.pa : c.sp, sb = c.role == 0 ? c.pb : c.sp;
  c.uniform = sp_uniform(sa) || sp_uniform(sb);
  c.c565 = sp_565(sa) || sp_565(sb);
  if (c.uniform && s.repeat == 0) s.repeat = (int)R(1, 3);  // a solid colour has no outside
  if (c.uniform) s.ksum = 100;                                // ... and is not dimmed by a kernel that sums to less than one
  c.cseed = seed64();
  return c;
}

// one rendering: returns the destination as a8r8g8b8 values (alpha forced to ff when the presentation has none), and
// whether the destination format carries alpha
struct Rendered {
  std::vector<uint32_t> px;
  bool has_alpha;
  bool narrow_all;
  bool ok = true;
};

static Rendered render(const OCase &c, int sp, int mp, int dp) {
  Rendered out;
  Scene sc = c.sc;
  Mix mx(c.cseed);
  // content: opaque colours; 565-representable when some presentation is r5g6b5; uniform when some presentation is solid
  int sw = sc.src.bits.w, sh = sc.src.bits.h;
  bool any565 = c.c565 || dp_565(c.role == 2 ? c.pa : c.dp) || dp_565(c.role == 2 ? c.pb : c.dp);
  auto colour = [&](Mix &m) {
    uint32_t v = m.u32() & 0xffffff;
    if (m.range(0, 3) == 0) v = m.range(0, 1) ? 0xffffff : 0;
    if (any565) v = decode8888(PIXMAN_r5g6b5, encode8888(PIXMAN_r5g6b5, 0xff000000 | v)) & 0xffffff;
    return v;
  };
  std::vector<uint32_t> scont((size_t)sw * sh);
  uint32_t u = colour(mx);
  for (auto &p : scont) p = c.uniform ? u : colour(mx);
  int dw = sc.dst.bits.w, dh = sc.dst.bits.h;
  std::vector<uint32_t> dcont((size_t)dw * dh);
  for (auto &p : dcont) p = colour(mx);
  // source presentation
  SImg &s = sc.src;
  auto bits_pres = [&](pixman_format_code_t f, bool one) {
    s.kind = 0;
    s.bits.fmt = fmt_index(f);
    if (one) {
      s.bits.w = 1;
      s.bits.h = 1;
      s.repeat = PIXMAN_REPEAT_NORMAL;
    }
  };
  switch (sp) {
  case SP_ARGB: bits_pres(PIXMAN_a8r8g8b8, false); break;
  case SP_XRGB: bits_pres(PIXMAN_x8r8g8b8, false); break;
  case SP_565: bits_pres(PIXMAN_r5g6b5, false); break;
  case SP_XBGR: bits_pres(PIXMAN_x8b8g8r8, false); break;
  case SP_SOLID:
    s = SImg();
    s.kind = 1;
    s.color = 0xff000000 | u;
    break;
  case SP_1x1_ARGB: bits_pres(PIXMAN_a8r8g8b8, true); break;
  default: bits_pres(PIXMAN_x8r8g8b8, true); break;
  }
  // mask presentation
  uint32_t ca_colour = 0xff000000u | (uint32_t)((c.cseed * 0x9E3779B97F4A7C15ULL) >> 40);
  SImg &m = sc.mask;
  sc.has_mask = mp != MP_NONE;
  switch (mp) {
  case MP_A8: m.bits.fmt = fmt_index(PIXMAN_a8); break;
  case MP_XRGB: m.bits.fmt = fmt_index(PIXMAN_x8r8g8b8); break;
  case MP_SOLID:
    m = SImg();
    m.kind = 1;
    m.color = 0xffffffff;
    break;
  case MP_1x1:
    m.bits.fmt = fmt_index(PIXMAN_a8);
    m.bits.w = m.bits.h = 1;
    m.repeat = PIXMAN_REPEAT_NORMAL;
    sc.mx = sc.my = 0;
    break;
  case MP_ARGB_CA:
    m.bits.fmt = fmt_index(PIXMAN_a8r8g8b8);
    m.component_alpha = 1;
    break;
  case MP_CA_BITS_C:
    m.bits.fmt = fmt_index(PIXMAN_a8r8g8b8);
    m.component_alpha = 1;
    break;
  case MP_CA_SOLID_C:
    m = SImg();
    m.kind = 1;
    m.color = ca_colour;
    m.component_alpha = 1;
    break;
  case MP_CA_1x1_C:
    m.bits.fmt = fmt_index(PIXMAN_a8r8g8b8);
    m.bits.w = m.bits.h = 1;
    m.repeat = PIXMAN_REPEAT_NORMAL;
    m.component_alpha = 1;
    sc.mx = sc.my = 0;
    break;
  default: break;
  }
  // destination presentation
  SImg &d = sc.dst;
  switch (dp) {
  case DP_ARGB: d.bits.fmt = fmt_index(PIXMAN_a8r8g8b8); break;
  case DP_XRGB: d.bits.fmt = fmt_index(PIXMAN_x8r8g8b8); break;
  case DP_XRGB_REPEAT:
    d.bits.fmt = fmt_index(PIXMAN_x8r8g8b8);
    d.repeat = PIXMAN_REPEAT_PAD;
    break;
  case DP_565: d.bits.fmt = fmt_index(PIXMAN_r5g6b5); break;
  default:
    d.bits.fmt = fmt_index(PIXMAN_r5g6b5);
    d.repeat = PIXMAN_REPEAT_NORMAL;
    break;
  }
  Built b;
  build(sc, b);
  if (!b.ok) {
    out.ok = false;
    return out;
  }
  // write the content (padding bits get garbage: they are not content)
  auto fill = [&](Image &im, const std::vector<uint32_t> &cont, int cw, bool opaque_white) {
    pixman_format_code_t f = im.d.code();
    for (int y = 0; y < im.d.h; y++)
      for (int x = 0; x < im.d.w; x++) {
        uint32_t argb = opaque_white ? 0xffffffffu : (0xff000000u | cont[(size_t)(y % (int)(cont.size() / cw)) * cw + (x % cw)]);
        uint32_t raw = encode8888(f, argb) | (mx.u32() & fieldmask(bpp(f)) & ~defined_mask(f));
        raw_put(im.rowp(y), bpp(f), x, raw);
      }
  };
  if (b.s.bits) fill(*b.s.bits, scont, sw, false);
  if (b.m.bits && mp >= MP_CA_BITS_C) {
    for (int y = 0; y < b.m.bits->d.h; y++)
      for (int x = 0; x < b.m.bits->d.w; x++) raw_put(b.m.bits->rowp(y), 32, x, ca_colour);
  } else if (b.m.bits)
    fill(*b.m.bits, scont, sw, true);
  fill(*b.d.bits, dcont, dw, false);
  if (getenv("VF_DEBUG")) fprintf(stderr, "render sp=%d mp=%d dp=%d u=%06x src.kind=%d color=%08x scene=%s\n", sp, mp, dp, u, sc.src.kind, sc.src.color, ser(sc).c_str());
  draw(sc, b);
  pixman_format_code_t df = d.bits.code();
  out.has_alpha = has_alpha(df);
  for (int y = 0; y < dh; y++)
    for (int x = 0; x < dw; x++) out.px.push_back(decode8888(df, raw_get(b.d.bits->rowp(y), bpp(df), x)));
  out.narrow_all = true;
  return out;
}

static bool op_needs_division(int op) {
  return op == PIXMAN_OP_SATURATE || (op >= PIXMAN_OP_DISJOINT_CLEAR && op <= PIXMAN_OP_CONJOINT_XOR) || op == PIXMAN_OP_COLOR_DODGE || op == PIXMAN_OP_COLOR_BURN ||
         op == PIXMAN_OP_SOFT_LIGHT || op >= PIXMAN_OP_HSL_HUE;
}

static bool op_needs_division(int op);
static Verdict run_case(const OCase &c) {
  Verdict v;
  int spa = c.role == 0 ? c.pa : c.sp, spb = c.role == 0 ? c.pb : c.sp;
  int mpa = c.role == 1 ? c.pa : c.mp, mpb = c.role == 1 ? c.pb : c.mp;
  int dpa = c.role == 2 ? c.pa : c.dp, dpb = c.role == 2 ? c.pb : c.dp;
  // outside the domain in which the library draws a transformed image at all (it drops the whole request, C04), a
  // transformed presentation and a solid one are not presentations of the same picture
  if (!transform_in_domain(c.sc.src, c.sc.sx, c.sc.sy, c.sc.w, c.sc.h) || !transform_in_domain(c.sc.mask, c.sc.mx, c.sc.my, c.sc.w, c.sc.h)) {
    v.label("skipped_request_outside_representable_range");
    return v;
  }
  Rendered A = render(c, spa, mpa, dpa), B = render(c, spb, mpb, dpb);
  if (!A.ok || !B.ok) {
    v.fail("image creation failed");
    return v;
  }
  // 565 destinations can only be compared with 565 destinations (the stored precision differs); the generator pairs
  // a8r8g8b8 with 565 only to compare after widening when the operator keeps values representable: restrict to
  // comparing like with like, except that x8r8g8b8/a8r8g8b8 pairs compare RGB
  bool a565 = dp_565(dpa), b565 = dp_565(dpb);
  if (a565 != b565) {
    v.label("skipped_565_vs_8888_destination");
    return v;
  }
  // r5g6b5 and a8r8g8b8 presentations hold the same content only at 8-bit precision (the a8r8g8b8 one stores the
  // bit-replicated values, the float pipeline widens r5g6b5 as v/31): compare them only in the 8-bit pipeline
  if (op_needs_division(c.sc.op) && (sp_565(spa) != sp_565(spb))) {
    v.label("skipped_565_vs_8888_source_in_float_pipeline");
    return v;
  }
  // a solid colour vs. a uniform image that goes through an interpolating / convolving fetch in floating point: the
  // filter reproduces a constant only up to float rounding (C18 states constancy for the tables, not for float sums)
  if (op_needs_division(c.sc.op) && (sp_uniform(spa) != sp_uniform(spb)) && c.sc.src.has_transform && c.sc.src.filter != 0 && c.sc.src.filter != 4) {
    v.label("skipped_solid_vs_filtered_uniform_in_float_pipeline");
    return v;
  }
  // the HSL operators are defined as "leave the destination" with a component-alpha mask: not a presentation of "no mask"
  if (c.sc.op >= PIXMAN_OP_HSL_HUE && ((mpa == MP_ARGB_CA) != (mpb == MP_ARGB_CA))) {
    v.label("skipped_hsl_component_alpha");
    return v;
  }
  // both variants run in the same pipeline (all formats are narrow), so they must be bit-identical on the bits both
  // define: RGB always, alpha when both destinations have it.  (For operators evaluated in floating point the two
  // variants still go through the same float code with the same inputs.)
  uint32_t cmpmask = (A.has_alpha && B.has_alpha) ? 0xffffffffu : 0x00ffffffu;
  const char *rolen = c.role == 0 ? "source" : c.role == 1 ? "mask" : "destination";
  const char *na = c.role == 0 ? SPN[c.pa] : c.role == 1 ? MPN[c.pa] : DPN[c.pa], *nb = c.role == 0 ? SPN[c.pb] : c.role == 1 ? MPN[c.pb] : DPN[c.pb];
  int dw = c.sc.dst.bits.w;
  // In the floating-point pipeline the two variants reach the same float code through different conversions (a solid's
  // 16-bit colour / 65535 vs. an 8-bit pixel / 255, a mask of exactly 1 vs. an interpolated 0.99999994, ...): inputs that
  // differ in the last float bit may land on either side of a truncation, so one step of the destination's depth is
  // tolerated there.  In the 8-bit pipeline the variants must be bit-identical.
  bool float_pipe = op_needs_division(c.sc.op);
  int step_rb = a565 ? 9 : 1, step_g = a565 ? 5 : 1;  // (565 steps as seen after widening to 8 bits)
  auto differs = [&](uint32_t x, uint32_t y) {
    if (!float_pipe) return ((x ^ y) & cmpmask) != 0;
    int tol[4] = {1, step_rb, step_g, step_rb};
    for (int k = 0; k < 4; k++) {
      int sh = 24 - 8 * k;
      if (!((cmpmask >> sh) & 0xff)) continue;
      if (std::abs((int)((x >> sh) & 0xff) - (int)((y >> sh) & 0xff)) > tol[k]) return true;
    }
    return false;
  };
  for (size_t i = 0; i < A.px.size() && v.ok; i++)
    if (differs(A.px[i], B.px[i]))
      v.fail(fmt("%s presented as [%s] vs [%s]: destination pixel (%zu,%zu) differs: %08x vs %08x (op %d, source %s, mask %s, dest %s, filter %d repeat %d)", rolen, na, nb, i % dw, i / dw, A.px[i] & cmpmask,
                 B.px[i] & cmpmask, c.sc.op, SPN[spa], MPN[mpa], DPN[dpa], c.sc.src.filter, c.sc.src.repeat));
  // non-trivial: the pair exercises a strength reduction or a mask elision
  static const bool row_differs[14] = {false, false, false, true, true, true, true, true, true, true, true, true, false, true};
  bool reducible = c.sc.op <= PIXMAN_OP_SATURATE && row_differs[c.sc.op];
  bool nt = false;
  if (c.role == 0) nt = reducible && c.pa == SP_ARGB && c.pb != SP_ARGB && c.pb != SP_1x1_ARGB;
  else if (c.role == 1) nt = (c.pa == MP_NONE) != (c.pb == MP_NONE) || c.pa >= MP_CA_BITS_C;
  else nt = reducible && (c.pb == DP_XRGB_REPEAT || c.pb == DP_565_REPEAT || c.pa != c.pb);
  v.nontrivial = nt;
  v.label(std::string("role_") + rolen);
  if (op_needs_division(c.sc.op)) v.label("float_pipeline_op");
  if (c.sc.src.has_transform) v.label("transformed_source");
  if (c.sc.src.repeat == 0) v.label("source_repeat_none");
  return v;
}

// ---------------------------------------------------------------- "only if every sample has alpha 1": almost-opaque solids
// A solid colour whose 16-bit alpha is just below 1 must not be treated as opaque.  The same colour presented as a 1x1
// repeating rgba_float image (exactly the same float values) is the reference; destinations of every depth.
struct NCase {
  std::vector<int64_t> col;  // r g b a, 16 bit
  int op = 3, role = 0, dfmt = 0, w = 4;
  uint64_t seed = 0;
  template <class A> void io(A &a) {
    a.f("col", col);
    a.f("op", op);
    a.f("role", role);
    a.f("dfmt", dfmt);
    a.f("w", w);
    a.f("seed", seed);
  }
};
static NCase gen_near() {
  NCase c;
  for (int i = 0; i < 3; i++) c.col.push_back(coin(40) ? pick<int64_t>({0, 0xffff, 0x8000}) : R(0, 0xffff));
  c.col.push_back(pickw({6, 2, 2}) == 0 ? R(0xff00, 0xfffe) : (coin(50) ? pick<int64_t>({0xffff, 0xfffe, 0xff00, 0xfeff, 0x8000, 0}) : R(0, 0xffff)));
  if (coin(70))
    for (int i = 0; i < 3; i++) c.col[i] = std::min(c.col[i], c.col[3]);  // premultiplied
  c.op = coin(70) ? (int)R(PIXMAN_OP_CLEAR, PIXMAN_OP_SATURATE) : (int)R(PIXMAN_OP_MULTIPLY, PIXMAN_OP_HSL_LUMINOSITY);
  c.role = coin(70) ? 0 : 1;
  c.dfmt = fmt_index(pick<pixman_format_code_t>({PIXMAN_rgba_float, PIXMAN_a2r10g10b10, PIXMAN_x2r10g10b10, PIXMAN_a2b10g10r10, PIXMAN_a8r8g8b8_sRGB, PIXMAN_a8r8g8b8, PIXMAN_x8r8g8b8, PIXMAN_r5g6b5, PIXMAN_rgb_float}));
  c.w = (int)R(1, 9);
  c.seed = seed64();
  return c;
}
static Verdict run_near(const NCase &c) {
  Verdict v;
  auto render1 = [&](bool as_float_image) -> std::unique_ptr<Image> {
    Bits db = gen_bits_fixed(c.dfmt, c.w, 1, c.seed);
    auto d = make_image(db);
    pixman_color_t col = {(uint16_t)c.col[0], (uint16_t)c.col[1], (uint16_t)c.col[2], (uint16_t)c.col[3]};
    pixman_image_t *im;
    float px[4];
    if (as_float_image) {
      // the solid fill converts its colour with c / 65535 in float; the 1x1 image holds exactly those values
      for (int i = 0; i < 4; i++) px[i] = (float)c.col[i] * (1.0f / 65535.0f);
      im = pixman_image_create_bits(PIXMAN_rgba_float, 1, 1, (uint32_t *)px, 16);
      pixman_image_set_repeat(im, PIXMAN_REPEAT_NORMAL);
    } else
      im = pixman_image_create_solid_fill(&col);
    uint32_t white = 0xffffffff;
    pixman_image_t *other = pixman_image_create_bits(PIXMAN_a8r8g8b8, 1, 1, &white, 4);
    pixman_image_set_repeat(other, PIXMAN_REPEAT_NORMAL);
    // role 0: the colour is the source (no mask); role 1: the colour is a component-alpha-less mask over a white source
    if (c.role == 0) pixman_image_composite32((pixman_op_t)c.op, im, nullptr, d->im, 0, 0, 0, 0, 0, 0, c.w, 1);
    else pixman_image_composite32((pixman_op_t)c.op, other, im, d->im, 0, 0, 0, 0, 0, 0, c.w, 1);
    pixman_image_unref(im);
    pixman_image_unref(other);
    return d;
  };
  auto a = render1(false), b = render1(true);
  pixman_format_code_t df = FORMATS[c.dfmt].code;
  bool wide_dest = !is_narrow(df);
  if (!wide_dest) {
    // an 8-bit destination with a narrow solid runs in the 8-bit pipeline for the solid presentation but in float for the
    // float image: different precision, not comparable bit for bit; only wide destinations are asserted
    v.label("narrow_destination_not_asserted");
    return v;
  }
  if (is_float(df)) {
    const float *pa = (const float *)a->rowp(0), *pb = (const float *)b->rowp(0);
    for (int i = 0; i < c.w * (bpp(df) / 32) && v.ok; i++)
      if (fabsf(pa[i] - pb[i]) > 1e-6f)
        v.fail(fmt("solid (r%04x g%04x b%04x a%04x) as %s, op %d, %s: component %d is %.7f, the same colour as a 1x1 repeating float image gives %.7f", (unsigned)c.col[0], (unsigned)c.col[1],
                   (unsigned)c.col[2], (unsigned)c.col[3], c.role ? "mask" : "source", c.op, FORMATS[c.dfmt].name, i, pa[i], pb[i]));
  } else {
    uint32_t dm = defined_mask(df);
    for (int x = 0; x < c.w && v.ok; x++) {
      uint32_t ra = raw_get(a->rowp(0), bpp(df), x) & dm, rb = raw_get(b->rowp(0), bpp(df), x) & dm;
      if (ra != rb)
        v.fail(fmt("solid (r%04x g%04x b%04x a%04x) as %s, op %d, %s: pixel %d is %x, the same colour as a 1x1 repeating float image gives %x", (unsigned)c.col[0], (unsigned)c.col[1], (unsigned)c.col[2],
                   (unsigned)c.col[3], c.role ? "mask" : "source", c.op, FORMATS[c.dfmt].name, x, ra, rb));
    }
  }
  v.nontrivial = c.col[3] >= 0xff00 && c.col[3] < 0xffff;
  if (v.nontrivial) v.label("alpha_just_below_one");
  return v;
}

static void register_props() {
  add_prop<OCase>("opaque", gen_case, run_case);
  add_prop<NCase>("nearopaque", gen_near, run_near);
}
VF_MAIN()
