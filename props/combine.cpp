// C01: compositing equations.  One-row scenes through pixman_image_composite32 compared with the reference models of
// ref_combine.hpp: bit-exact for Porter-Duff/ADD in the 8-bit pipeline, one destination step for the float pipeline,
// two steps for the PDF blend modes evaluated in the 8-bit pipeline (DESIGN.md §4 C01).
#include "img.hpp"
#include "ref_combine.hpp"
using namespace vf;
using namespace img;

static const char *OPN[] = {"CLEAR", "SRC", "DST", "OVER", "OVER_REVERSE", "IN", "IN_REVERSE", "OUT", "OUT_REVERSE", "ATOP", "ATOP_REVERSE", "XOR", "ADD", "SATURATE"};
static std::vector<int> all_ops() {
  std::vector<int> v;
  for (int o = PIXMAN_OP_CLEAR; o <= PIXMAN_OP_SATURATE; o++) v.push_back(o);
  for (int o = PIXMAN_OP_DISJOINT_CLEAR; o <= PIXMAN_OP_DISJOINT_XOR; o++) v.push_back(o);
  for (int o = PIXMAN_OP_CONJOINT_CLEAR; o <= PIXMAN_OP_CONJOINT_XOR; o++) v.push_back(o);
  for (int o = PIXMAN_OP_MULTIPLY; o <= PIXMAN_OP_HSL_LUMINOSITY; o++) v.push_back(o);
  return v;
}
static std::string opname(int op) {
  if (op <= PIXMAN_OP_SATURATE) return OPN[op];
  if (op >= PIXMAN_OP_DISJOINT_CLEAR && op <= PIXMAN_OP_DISJOINT_XOR) return std::string("DISJOINT_") + OPN[op - PIXMAN_OP_DISJOINT_CLEAR];
  if (op >= PIXMAN_OP_CONJOINT_CLEAR && op <= PIXMAN_OP_CONJOINT_XOR) return std::string("CONJOINT_") + OPN[op - PIXMAN_OP_CONJOINT_CLEAR];
  static const char *B[] = {"MULTIPLY", "SCREEN", "OVERLAY", "DARKEN", "LIGHTEN", "COLOR_DODGE", "COLOR_BURN", "HARD_LIGHT", "SOFT_LIGHT", "DIFFERENCE", "EXCLUSION", "HSL_HUE", "HSL_SATURATION", "HSL_COLOR", "HSL_LUMINOSITY"};
  return B[op - PIXMAN_OP_MULTIPLY];
}
static bool needs_division(int op) {
  return op == PIXMAN_OP_SATURATE || (op >= PIXMAN_OP_DISJOINT_CLEAR && op <= PIXMAN_OP_CONJOINT_XOR) || op == PIXMAN_OP_COLOR_DODGE || op == PIXMAN_OP_COLOR_BURN ||
         op == PIXMAN_OP_SOFT_LIGHT || op >= PIXMAN_OP_HSL_HUE;
}

struct Side {
  int solid = 0;
  uint32_t color = 0;  // a8r8g8b8 for solid: the high bytes of the 16-bit channels
  uint32_t lo = 0;     // the low bytes of the 16-bit channels (a8r8g8b8 layout); used when wide16, else the high byte is replicated
  int wide16 = 0;
  Bits bits;
  int x = 0, y = 0;  // position of the row inside the image
  // the four 16-bit channels handed to pixman_image_create_solid_fill (a, r, g, b)
  void chan16(uint32_t out[4]) const {
    for (int k = 0; k < 4; k++) {
      uint32_t hi = (color >> (24 - 8 * k)) & 0xff, l = (lo >> (24 - 8 * k)) & 0xff;
      out[k] = wide16 ? (hi << 8 | l) : hi * 257;
    }
  }
  template <class A> void io(A &a) {
    a.f("solid", solid);
    a.f("color", color);
    a.f("lo", lo);
    a.f("wide16", wide16);
    a.f("bits", bits);
    a.f("x", x);
    a.f("y", y);
  }
};
struct CCase {
  int op = 0, mask_kind = 0, width = 1, dst_repeat = 0;
  int pixbuf = 0;  // the mask is a second image (a8r8g8b8 / a8b8g8r8) on the storage of the x8r8g8b8 / x8b8g8r8 source
  Side src, mask, dst;
  template <class A> void io(A &a) {
    a.f("op", op);
    a.f("pixbuf", pixbuf);
    a.f("mask_kind", mask_kind);
    a.f("width", width);
    a.f("dst_repeat", dst_repeat);
    a.f("src", src);
    a.f("mask", mask);
    a.f("dst", dst);
  }
};

// formats this property draws from: packed RGB(A) of every depth/order, the 10-bit and sRGB formats and the float formats
static std::vector<int> packed_formats(bool dst) {
  std::vector<int> v;
  for (int i = 0; i < NFORMATS; i++) {
    pixman_format_code_t f = FORMATS[i].code;
    if (is_yuv(f) || is_indexed(f)) continue;
    if (dst && !FORMATS[i].dst_ok) continue;
    v.push_back(i);
  }
  return v;
}
static int gen_format(bool dst) {
  static const std::vector<int> S = packed_formats(false), D = packed_formats(true);
  // mass on the formats with specialised paths
  if (coin(45)) return fmt_index(pick<pixman_format_code_t>({PIXMAN_a8r8g8b8, PIXMAN_x8r8g8b8, PIXMAN_r5g6b5, PIXMAN_a8, PIXMAN_a8b8g8r8, PIXMAN_x8b8g8r8, PIXMAN_b8g8r8a8, PIXMAN_r8g8b8}));
  return pickv(dst ? D : S);
}
static uint32_t gen_color8() {
  auto ch = [] { return (uint32_t)(coin(50) ? pick<int>({0, 1, 127, 128, 254, 255}) : (int)R(0, 255)); };
  uint32_t a = ch(), r = ch(), g = ch(), b = ch();
  if (coin(50)) {
    r = std::min(r, a);
    g = std::min(g, a);
    b = std::min(b, a);
  }
  return (a << 24) | (r << 16) | (g << 8) | b;
}
static Side gen_side(bool dst, int width, bool allow_solid) {
  Side s;
  if (allow_solid && coin(25)) {
    s.solid = 1;
    s.color = gen_color8();
    if (coin(30)) {
      // genuinely 16-bit colours; in particular alpha 0xff00..0xfffe, which is opaque at 8 bits only
      s.wide16 = 1;
      s.lo = coin(50) ? pick<uint32_t>({0x00000000u, 0xfe000000u, 0x00ffffffu, 0x80808080u}) : u32();
      if (coin(40)) s.color |= 0xff000000u;
      // keep premultiplied-valid colours valid (c16 <= a16)
      uint32_t c[4];
      s.chan16(c);
      bool valid8 = ((s.color >> 16) & 0xff) <= (s.color >> 24) && ((s.color >> 8) & 0xff) <= (s.color >> 24) && (s.color & 0xff) <= (s.color >> 24);
      if (valid8)
        for (int k = 1; k < 4; k++)
          if (c[k] > c[0]) {
            int sh = 24 - 8 * k;
            s.lo = (s.lo & ~(0xffu << sh)) | ((c[0] & 0xff) << sh);
            s.color = (s.color & ~(0xffu << sh)) | ((c[0] >> 8) << sh);
          }
    }
    return s;
  }
  s.x = (int)R(0, 9);
  s.bits = gen_bits(gen_format(dst), 1, 1);
  s.bits.w = width + s.x + (int)R(0, 3);
  s.y = coin(25) ? (int)R(1, 2) : 0;
  s.bits.h = s.y + 1 + (coin(20) ? 1 : 0);
  s.bits.fill = pickw({3, 5, 1, 4, 1, 0, 1});
  return s;
}
static CCase gen_case() {
  CCase c;
  static const std::vector<int> OPS = all_ops();
  c.op = coin(40) ? (int)R(PIXMAN_OP_CLEAR, PIXMAN_OP_ADD) : pickv(OPS);
  c.mask_kind = pickw({4, 3, 3});
  c.width = coin(30) ? (int)R(1, 4) : (int)R(1, 67);
  c.src = gen_side(false, c.width, true);
  if (c.mask_kind) {
    c.mask = gen_side(false, c.width, true);
    if (!c.mask.solid && c.mask_kind == 1 && coin(60)) c.mask.bits.fmt = fmt_index(PIXMAN_a8);
  }
  if (coin(6)) {
    // "pixbuf" requests: non-premultiplied x888 data whose own alpha channel is applied as the mask, by wrapping the same
    // storage in a second image; the library has special paths for exactly equal source and mask positions
    c.pixbuf = 1;
    c.mask_kind = 1;
    c.src.solid = 0;
    if (!c.src.bits.w) c.src = gen_side(false, c.width, false);
    c.src.bits.fmt = fmt_index(coin(50) ? PIXMAN_x8b8g8r8 : PIXMAN_x8r8g8b8);
    c.src.x = (int)R(0, 2);
    c.src.y = (int)R(0, 2);
    c.src.bits.w = c.width + 2 + (int)R(0, 2);
    c.src.bits.h = 3 + (int)R(0, 1);
    c.src.bits.fill = pickw({3, 5, 0, 1, 1, 0, 1});
    c.mask = c.src;
    c.mask.bits.fmt = fmt_index(c.src.bits.code() == PIXMAN_x8b8g8r8 ? PIXMAN_a8b8g8r8 : PIXMAN_a8r8g8b8);
    if (coin(45)) {
      // positions that differ, preferably in one coordinate only or with the coordinates exchanged
      c.mask.x = (int)R(0, 2);
      c.mask.y = coin(50) ? c.src.x : (int)R(0, 2);
    }
    if (coin(60)) c.op = PIXMAN_OP_OVER;
  }
  c.dst = gen_side(true, c.width, false);
  if (c.pixbuf && coin(70)) c.dst.bits.fmt = fmt_index(pick<pixman_format_code_t>({PIXMAN_a8r8g8b8, PIXMAN_x8r8g8b8, PIXMAN_r5g6b5, PIXMAN_a8b8g8r8, PIXMAN_x8b8g8r8}));
  c.dst_repeat = coin(12) ? (int)R(1, 3) : 0;  // a repeating destination is what makes an alpha-less destination "opaque" for the operator table
  return c;
}

struct Px {
  bool wide;
  uint32_t p8;   // a8r8g8b8, valid when narrow
  rcf::C real;   // exact real value (value/max; sRGB linearised)
};
static Px read_px(const Side &s, const Image *im, int i) {
  Px p;
  if (s.solid) {
    p.wide = false;
    // 8-bit pipeline: the high bytes (color_to_uint32 truncates); float pipeline: the 16-bit values / 65535
    uint32_t c[4];
    s.chan16(c);
    p.p8 = s.color;
    p.real = rcf::C{c[0] / 65535.0L, c[1] / 65535.0L, c[2] / 65535.0L, c[3] / 65535.0L};
    return p;
  }
  pixman_format_code_t f = s.bits.code();
  if (is_float(f)) {
    const float *q = (const float *)im->rowp(s.y) + (size_t)(s.x + i) * (bpp(f) / 32);
    p.wide = true;
    p.p8 = 0;
    p.real = rcf::C{bpp(f) == 128 ? (long double)q[3] : 1.0L, q[0], q[1], q[2]};
    return p;
  }
  uint32_t raw = raw_get(im->rowp(s.y), bpp(f), s.x + i);
  p.wide = !is_narrow(f);
  p.p8 = decode8888(f, raw);
  ColF cf = decode_real(f, raw);
  p.real = rcf::C{cf.a, cf.r, cf.g, cf.b};
  return p;
}
static pixman_image_t *solid_image(const Side &sd) {
  uint32_t c[4];
  sd.chan16(c);
  pixman_color_t col = {(uint16_t)c[1], (uint16_t)c[2], (uint16_t)c[3], (uint16_t)c[0]};
  return pixman_image_create_solid_fill(&col);
}

static Verdict run_case(const CCase &c) {
  Verdict v;
  std::unique_ptr<Image> si, mi, di;
  pixman_image_t *s = nullptr, *m = nullptr, *pixbuf_mask = nullptr;
  if (c.src.solid) s = solid_image(c.src);
  else {
    si = make_image(c.src.bits);
    s = si->im;
  }
  if (c.mask_kind) {
    if (c.pixbuf && si) {
      // a second image object over the source's storage
      m = pixman_image_create_bits_no_clear(c.mask.bits.code(), si->d.w, si->d.h, (uint32_t *)si->row0, si->stride);
      pixbuf_mask = m;
    } else if (c.mask.solid) m = solid_image(c.mask);
    else {
      mi = make_image(c.mask.bits);
      m = mi->im;
    }
    if (m) pixman_image_set_component_alpha(m, c.mask_kind == 2);
  }
  di = make_image(c.dst.bits);
  if (!s || (c.mask_kind && !m) || !di->im) {
    v.fail("image creation failed");
    return v;
  }
  if (c.dst_repeat) pixman_image_set_repeat(di->im, (pixman_repeat_t)c.dst_repeat);
  // remember the destination pixels before drawing
  std::vector<Px> before;
  for (int i = 0; i < c.width; i++) before.push_back(read_px(c.dst, di.get(), i));
  pixman_image_composite32((pixman_op_t)c.op, s, m, di->im, c.src.x, c.src.y, c.mask.x, c.mask.y, c.dst.x, c.dst.y, c.width, 1);

  pixman_format_code_t df = c.dst.bits.code();
  bool all_narrow = is_narrow(df) && (c.src.solid || is_narrow(c.src.bits.code())) && (!c.mask_kind || c.mask.solid || is_narrow(c.mask.bits.code()));
  // DISJOINT_/CONJOINT_ CLEAR, SRC and DST are the same compositions as CLEAR, SRC and DST (all factors are 0 or 1) and
  // are evaluated as such, i.e. in the 8-bit pipeline for 8-bit formats
  int eff_op = c.op;
  if (c.op >= PIXMAN_OP_DISJOINT_CLEAR && c.op <= PIXMAN_OP_DISJOINT_DST) eff_op = c.op - PIXMAN_OP_DISJOINT_CLEAR;
  if (c.op >= PIXMAN_OP_CONJOINT_CLEAR && c.op <= PIXMAN_OP_CONJOINT_DST) eff_op = c.op - PIXMAN_OP_CONJOINT_CLEAR;
  bool narrow_pipe = all_narrow && !needs_division(eff_op);
  int cls;  // 0 exact, 1 float, 2 narrow blend
  if (narrow_pipe && rc8::is_exact_op(eff_op)) cls = 0;
  else if (narrow_pipe) cls = 2;
  else cls = 1;
  v.label(cls == 0 ? "class_exact" : cls == 1 ? "class_float" : "class_narrow_blend");
  v.label("op_" + opname(c.op));
  v.label(c.mask_kind == 0 ? "mask_none" : c.mask_kind == 1 ? "mask_unified" : "mask_ca");
  bool interesting = false;
  int skipped_superlum = 0, saturate_alt = 0;
  uint32_t dm = is_float(df) ? 0 : defined_mask(df);
  int dbits[4] = {abits(df), rbits(df), gbits(df), bbits(df)};
  for (int i = 0; i < c.width && v.ok; i++) {
    Px sp = read_px(c.src, si.get(), i), mp, dp = before[i];
    if (c.mask_kind) mp = read_px(c.mask, c.pixbuf ? si.get() : mi.get(), i);
    else {
      mp.p8 = 0xffffffff;
      mp.real = rcf::C{1, 1, 1, 1};
    }
    uint32_t sa8 = sp.p8 >> 24;
    if ((sa8 > 0 && sa8 < 255) || c.mask_kind) interesting = true;
    if (cls == 0) {
      uint32_t want8 = rc8::combine(eff_op, sp.p8, mp.p8, c.mask_kind, dp.p8);
      uint32_t want = encode8888(df, want8);
      uint32_t got = raw_get(di->rowp(c.dst.y), bpp(df), c.dst.x + i);
      if ((got & dm) != (want & dm)) {
        v.fail(fmt("%s %s: pixel %d: src %08x mask %08x(kind %d) dst %08x -> got %x, exact rule gives %x (8-bit result %08x) [dst %s]", opname(c.op).c_str(),
                   c.src.solid ? "solid" : FORMATS[c.src.bits.fmt].name, i, sp.p8, mp.p8, c.mask_kind, dp.p8, got & dm, want & dm, want8, FORMATS[c.dst.bits.fmt].name));
      }
      continue;
    }
    // real-valued classes
    rcf::C sr = sp.real, mr = mp.real, dr = dp.real;
    // The equations are stated for premultiplied inputs (c <= a).  For "super-luminous" inputs the blend modes leave
    // [0,1] and the zero-denominator conventions of the disjoint/conjoint factors become observable (sa == 0 with
    // s != 0), about which the statement says nothing: such pixels are checked in the exact class only.
    auto superlum = [](const rcf::C &x) { return x.r > x.a + 1e-9L || x.g > x.a + 1e-9L || x.b > x.a + 1e-9L; };
    rcf::Kind kk = rcf::kind_of(c.op);
    (void)kk;
    if (superlum(sr) || superlum(dr)) {
      skipped_superlum++;
      continue;
    }
    bool undef = false;
    rcf::C want;
    if (cls == 2) {
      // inputs as the 8-bit pipeline sees them: decoded to 8 bits and the mask applied with the exact rounding rule;
      // the blend equation itself is then evaluated on reals (no rounding rule is stated for these operators)
      rc8::P S = rc8::unpack(sp.p8), M = rc8::unpack(mp.p8);
      rcf::real sc[4], sai[4];
      for (int k = 0; k < 4; k++) {
        uint32_t f = c.mask_kind == 0 ? 255 : (c.mask_kind == 1 ? M.c[0] : M.c[k]);
        sc[k] = rc8::mul(S.c[k], f) / 255.0L;
        sai[k] = rc8::mul(S.c[0], f) / 255.0L;
      }
      rc8::P D = rc8::unpack(dp.p8);
      dr = rcf::C{D.c[0] / 255.0L, D.c[1] / 255.0L, D.c[2] / 255.0L, D.c[3] / 255.0L};
      want = rcf::combine_premasked(c.op, sc, sai, c.mask_kind, dr, &undef);
    } else
      want = rcf::combine(c.op, sr, mr, c.mask_kind, dr, &undef);
    if (undef) {
      v.label("hsl_component_alpha_checked_as_dst");
      want = dr;
    }
    long double wv[4] = {want.a, want.r, want.g, want.b};
    if (is_float(df)) {
      const float *q = (const float *)di->rowp(c.dst.y) + (size_t)(c.dst.x + i) * (bpp(df) / 32);
      long double gv[4] = {bpp(df) == 128 ? (long double)q[3] : 1.0L, q[0], q[1], q[2]};
      for (int k = (bpp(df) == 128 ? 0 : 1); k < 4 && v.ok; k++)
        if (fabsl(gv[k] - wv[k]) > 1e-4L)
          v.fail(fmt("%s: pixel %d channel %d: float destination %.7Lf, equation gives %.7Lf (src %.4Lf,%.4Lf,%.4Lf,%.4Lf mask kind %d dst %.4Lf,%.4Lf,%.4Lf,%.4Lf)", opname(c.op).c_str(), i, k,
                     gv[k], wv[k], sr.a, sr.r, sr.g, sr.b, c.mask_kind, dr.a, dr.r, dr.g, dr.b));
      continue;
    }
    uint32_t got = raw_get(di->rowp(c.dst.y), bpp(df), c.dst.x + i);
    Ch gc = unpack(df, got);
    uint32_t gch[4] = {gc.a, gc.r, gc.g, gc.b};
    long double tol = cls == 2 ? 2.0L + 1e-6L : 1.0L + 1.0L / 64;
    for (int k = 0; k < 4 && v.ok; k++) {
      if (!dbits[k]) continue;
      long double mx = (long double)fieldmask(dbits[k]);
      long double target = wv[k];
      if (is_srgb(df) && k > 0) target = linear_to_srgb(target);
      long double diff = fabsl((long double)gch[k] - target * mx);
      if (diff > tol && c.op == PIXMAN_OP_SATURATE && all_narrow) {
        // SATURATE == OVER_REVERSE for an opaque source and == DST for an opaque destination (premultiplied inputs); the
        // library may then use the 8-bit pipeline, whose exact result is accepted as well
        uint32_t alt = 0xffffffff;
        // (the source is opaque after masking when its alpha and the mask value are both 1: no mask, a unified mask
        // whose alpha is 1 -- e.g. any mask format without alpha channel -- or a component-alpha mask of all ones)
        uint32_t sa_eff = sp.p8 >> 24;
        if (c.mask_kind == 1 && (mp.p8 >> 24) != 255) sa_eff = 0;
        if (c.mask_kind == 2 && mp.p8 != 0xffffffffu) sa_eff = 0;
        if ((dp.p8 >> 24) == 255) alt = dp.p8;
        else if (sa_eff == 255) alt = rc8::combine(PIXMAN_OP_OVER_REVERSE, sp.p8, mp.p8, c.mask_kind, dp.p8);
        if (alt != 0xffffffff && ((encode8888(df, alt) ^ got) & dm) == 0) {
          saturate_alt++;
          break;
        }
      }
      if (diff > tol) {
        const char *known = nullptr;
        v.fail(fmt("%s [%s]: pixel %d channel %d (%d bits): got %u, equation gives %.4Lf (off by %.3Lf steps; tolerance %.2Lf). src (a,r,g,b)=%.5Lf,%.5Lf,%.5Lf,%.5Lf mask kind %d %.5Lf,%.5Lf,%.5Lf,%.5Lf dst %.5Lf,%.5Lf,%.5Lf,%.5Lf; formats %s/%s/%s",
                   opname(c.op).c_str(), cls == 2 ? "8-bit blend" : "float", i, k, dbits[k], gch[k], target * mx, diff, tol, sr.a, sr.r, sr.g, sr.b, c.mask_kind, mr.a, mr.r, mr.g, mr.b, dr.a, dr.r, dr.g,
                   dr.b, c.src.solid ? "solid" : FORMATS[c.src.bits.fmt].name, c.mask_kind ? (c.mask.solid ? "solid" : FORMATS[c.mask.bits.fmt].name) : "-", FORMATS[c.dst.bits.fmt].name));
        if (rcf::kind_of(c.op) == rcf::K_HSL && c.mask_kind == 1 && k == 3) known = "S1";
        v.known = known;
      }
    }
  }
  // every byte of the destination outside the row's addressed pixels must be unchanged (cheap bonus; C03 does it thoroughly)
  if (c.src.solid == 0 && si && si->before.size() == si->buf.size && memcmp(si->before.data(), si->buf.p, si->buf.size) != 0) v.fail("source image was modified");
  if (c.src.solid) pixman_image_unref(s);
  if (c.mask_kind && c.mask.solid && !pixbuf_mask) pixman_image_unref(m);
  if (pixbuf_mask) pixman_image_unref(pixbuf_mask);
  if (c.pixbuf) v.label(c.src.x == c.mask.x && c.src.y == c.mask.y ? "pixbuf_same_position" : "pixbuf_different_position");
  bool reads_both = !(c.op == PIXMAN_OP_CLEAR || c.op == PIXMAN_OP_SRC || c.op == PIXMAN_OP_DST || c.op == PIXMAN_OP_DISJOINT_CLEAR || c.op == PIXMAN_OP_DISJOINT_SRC ||
                      c.op == PIXMAN_OP_DISJOINT_DST || c.op == PIXMAN_OP_CONJOINT_CLEAR || c.op == PIXMAN_OP_CONJOINT_SRC || c.op == PIXMAN_OP_CONJOINT_DST);
  v.nontrivial = (reads_both || c.mask_kind) && interesting;
  if (c.dst_repeat) v.label("dst_repeat");
  if (skipped_superlum) v.label("blend_pixels_skipped_not_premultiplied");
  if (saturate_alt) v.label("saturate_accepted_as_8bit_over_reverse_or_dst");
  return v;
}

static void register_props() { add_prop<CCase>("combine", gen_case, run_case); }
VF_MAIN()
