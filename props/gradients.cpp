// C13: gradients paint the stop interpolation at each pixel's geometric parameter (DESIGN.md §4 C13).
#include "scene.hpp"
using namespace vf;
using namespace img;
using namespace scene;
typedef long double real;

struct GCase {
  SImg g;          // kind 2/3/4, stops, geom, repeat, transform
  int wide = 0;    // destination rgba_float instead of a8r8g8b8
  int w = 8, h = 1, sx = 0, sy = 0;
  int over = 0;    // composite with OVER onto a random destination instead of SRC
  int masked = 0;  // through an a8 mask with runs of 0x00 / 0xff (pixels under other mask values are not asserted)
  uint64_t mseed = 0;
  template <class A> void io(A &a) {
    a.f("masked", masked);
    a.f("mseed", mseed);
    a.f("g", g);
    a.f("wide", wide);
    a.f("over", over);
    a.f("w", w);
    a.f("h", h);
    a.f("sx", sx);
    a.f("sy", sy);
  }
};

static int64_t gcoord(int range) {
  int64_t px = R(-range, range);
  return px * 65536 + (coin(50) ? pick<int64_t>({0, 32768, 1, 65535, 16384}) : R(0, 65535));
}
static std::vector<Stop> gen_stops(bool sane) {
  int n = (int)R(1, 8);
  std::vector<Stop> st;
  int64_t x = coin(40) ? 0 : R(0, 30000);
  for (int i = 0; i < n; i++) {
    Stop s;
    if (sane) {
      if (i) x = std::min<int64_t>(65536, x + (coin(25) ? 0 : R(1, 30000)));  // repeated positions = hard stops
      if (i == n - 1 && coin(40)) x = 65536;
      s.x = x;
    } else
      s.x = pickw({3, 1, 1}) == 0 ? R(0, 65536) : (coin(50) ? R(-200000, 200000) : pick<int64_t>({INT32_MIN, INT32_MAX, 0, 65536, -1}));
    uint32_t a = coin(40) ? 255 : (uint32_t)R(0, 255);
    s.color = (a << 24) | (u32() & 0xffffff);
    if (coin(15)) s.color = coin(50) ? 0 : 0xffffffff;
    st.push_back(s);
  }
  return st;
}
static SImg gen_gradient(bool sane) {
  SImg g;
  g.kind = pickw({4, 4, 3}) + 2;
  g.stops = gen_stops(sane);
  g.repeat = (int)R(0, 3);
  if (g.kind == 2) {
    g.geom = {gcoord(40), gcoord(10), gcoord(40), gcoord(10)};
    if (coin(25)) g.geom[3] = g.geom[1];  // horizontal axis: the "constant column" shortcuts
    if (coin(15)) g.geom[2] = g.geom[0];  // vertical axis
    if (!sane && coin(20)) {
      g.geom[2] = g.geom[0];
      g.geom[3] = g.geom[1];
    }
  } else if (g.kind == 3) {
    int64_t r1 = coin(20) ? 0 : R(0, 30 * 65536), r2 = coin(20) ? r1 : R(0, 40 * 65536);
    g.geom = {gcoord(30), gcoord(8), gcoord(30), gcoord(8), r1, r2};
    if (coin(30)) {
      g.geom[2] = g.geom[0];
      g.geom[3] = g.geom[1];
    }  // concentric
    if (!sane && coin(20)) g.geom[4] = g.geom[5] = 0;
  } else {
    g.geom = {gcoord(30), gcoord(6), R(0, 360) * 65536 + (coin(50) ? 0 : R(0, 65535))};
    if (coin(35)) g.geom[2] = R(-800, 800) * 65536 + (coin(50) ? 0 : R(0, 65535));  // negative angles and more than one turn (seeded C13t)
    if (coin(20)) g.geom = {((int64_t)R(0, 20) << 16) + 32768, ((int64_t)R(0, 2) << 16) + 32768, g.geom[2]};  // centre on a pixel centre
  }
  int tk = pickw({5, 2, 2, 1, sane ? 0 : 1, 1});
  if (tk) {
    g.has_transform = 1;
    if (tk == 5) {
      // "keystone" matrices: scale + translation with one non-zero entry in the projective row, so that w varies along
      // the rows only (or along the columns only)
      int64_t a = coin(50) ? 65536 : R(20000, 200000);
      g.m = {a, 0, R(-8, 8) * 65536, 0, coin(50) ? a : R(20000, 200000), R(-8, 8) * 65536, 0, 0, 65536};
      g.m[coin(60) ? 7 : 6] = (coin(50) ? 1 : -1) * R(100, 3000);
      if (coin(40)) {
        // ... or a pure shear: exactly one off-diagonal entry, no projective part
        g.m[6] = g.m[7] = 0;
        g.m[coin(50) ? 1 : 3] = (coin(50) ? 1 : -1) * R(3000, 90000);
      }
    } else if (tk == 1) g.m = gen_transform(2, 20, 20);
    else if (tk == 2) g.m = gen_transform(4, 20, 20);
    else if (tk == 3) g.m = gen_transform(5, 20, 20);
    else g.m = {0, 0, 0, 0, 0, 0, 0, 0, coin(50) ? 0 : 65536};  // singular
  }
  return g;
}
static GCase gen_case() {
  GCase c;
  c.g = gen_gradient(true);
  c.wide = coin(30);
  c.w = (int)R(1, 40);
  c.h = (int)R(1, 3);
  c.sx = (int)R(-5, 20);
  c.sy = (int)R(-3, 6);
  c.over = coin(30);
  if (coin(20)) {
    c.masked = coin(35) ? 2 : 1;  // 2: a8r8g8b8 component-alpha mask whose pixels are 0, all ones, or "alpha 0, colour 1"
    c.mseed = seed64();
    c.h = (int)R(1, 6);
    if (c.masked == 2) c.over = 0;
  }
  if (coin(25)) c.h = (int)R(2, 8);
  SImg &g = c.g;
  switch (pickw({82, 6, 6, 6})) {
  case 1: {
    // narrow and very tall requests over an almost horizontal linear gradient: whether "every row looks the same" is a
    // question about the drift over the whole height, not over the width (seeded C13c)
    g.kind = 2;
    g.has_transform = 0;
    c.w = (int)R(1, 3);
    c.h = (int)R(300, 4000);
    int64_t x1 = gcoord(10), y1 = gcoord(10);
    g.geom = {x1, y1, x1 + R(1, 12) * 65536 + R(0, 65535), y1 + (coin(50) ? 1 : -1) * R(1, 400)};
    break;
  }
  case 2: {
    // geometry tens of thousands of pixels away from the request (but inside the representable range): intermediate
    // sums of the per-scanline setup no longer fit 32 bits (seeded C13d)
    g.has_transform = 1;
    int64_t tx = (coin(50) ? 1 : -1) * R(16400, 29000), ty = coin(60) ? R(-20, 20) : (coin(50) ? 1 : -1) * R(16400, 29000);
    g.m = {65536, 0, tx * 65536, 0, 65536, ty * 65536, 0, 0, 65536};
    if (g.stops.size() > 3) g.stops.resize(3);
    if (g.kind == 3) {
      // radii growing by 25-40 px keep |t| in the hundreds
      g.geom[5] = g.geom[4] + R(25, 40) * 65536;
      if (coin(60)) {
        g.geom[2] = g.geom[0];
        g.geom[3] = g.geom[1];
      }
    } else if (g.kind == 2) {
      g.geom[2] = g.geom[0] + (coin(50) ? 1 : -1) * R(30, 60) * 65536;
    }
    if (g.repeat == 0) g.repeat = (int)R(1, 3);
    if (coin(35)) {
      // a gradient less than two pixels long, tens of thousands of pixels away, without periodic repeat: |t| in the
      // tens of thousands, where the colour is simply the end stop (PAD) or nothing (NONE)
      g.repeat = coin(50) ? PIXMAN_REPEAT_PAD : PIXMAN_REPEAT_NONE;
      if (g.kind == 3) g.geom[5] = g.geom[4] + R(20000, 130000);
      else if (g.kind == 2) {
        g.geom[2] = g.geom[0] + (coin(50) ? 1 : -1) * R(20000, 130000);
        g.geom[3] = g.geom[1] + R(-20000, 20000);
      }
    }
    break;
  }
  case 3: {
    // internally tangent circles: |c2 - c1| == |r2 - r1| exactly, so the quadratic degenerates (a == 0) and half of the
    // plane has no admissible parameter; with OVER those pixels must keep the destination (seeded C13e)
    g.kind = 3;
    int64_t k = R(1, 12) * 65536 / 4;
    int64_t r1 = coin(30) ? 0 : R(0, 20) * 65536, cx = gcoord(20), cy = gcoord(6);
    int sgn = coin(50) ? 1 : -1;
    if (coin(50)) g.geom = {cx, cy, cx + sgn * 4 * k, cy, r1, r1 + 4 * k};
    else g.geom = {cx, cy, cx + sgn * 3 * k, cy + 4 * k, r1, r1 + 5 * k};  // 3-4-5
    if (coin(70)) g.repeat = (int)R(1, 3);
    if (coin(60))
      for (auto &st : g.stops) st.color |= 0xff000000;
    c.over = coin(80);
    if (coin(50)) g.has_transform = 0;
    if (coin(40)) {
      // everything on the pixel grid and no transform: a column of pixel centres lies exactly on the tangent line, where
      // the degenerate equation has no root at all (b == 0 as well) — those pixels are transparent (seeded C13r)
      g.has_transform = 0;
      int64_t ccx = R(-6, 30), r1px = coin(40) ? 0 : R(1, 6), dpx = R(1, 12);
      cx = ccx * 65536 + 32768;
      cy = R(-3, 8) * 65536 + 32768;
      g.geom = {cx, cy, cx + sgn * dpx * 65536, cy, r1px * 65536, (r1px + dpx) * 65536};
      c.w = (int)R(4, 40);
      c.sx = (int)(ccx - sgn * r1px - R(0, c.w - 1));
    }
    break;
  }
  default: break;
  }
  return c;
}
static GCase gen_unsafe() {
  GCase c = gen_case();
  c.g = gen_gradient(false);
  return c;
}

// ---------------------------------------------------------------- reference
struct Col {
  real a, r, g, b;  // premultiplied, 0..1
  bool any = false; // zone the statement does not pin down
};
static Col stopcol(uint32_t c) { return Col{(c >> 24) / 255.0L, ((c >> 16) & 0xff) / 255.0L, ((c >> 8) & 0xff) / 255.0L, (c & 0xff) / 255.0L}; }
static Col premul(Col c) { return Col{c.a, c.r * c.a, c.g * c.a, c.b * c.a, c.any}; }
static Col lerp(Col l, Col r, real f) { return Col{l.a + (r.a - l.a) * f, l.r + (r.r - l.r) * f, l.g + (r.g - l.g) * f, l.b + (r.b - l.b) * f}; }

// colour at parameter t (statement: repeat applied to t, two neighbouring stops interpolated in non-premultiplied
// space, then premultiplied)
static Col colour_at(const SImg &g, real t) {
  const auto &st = g.stops;
  int n = (int)st.size();
  real xf = st[0].x / 65536.0L, xl = st[n - 1].x / 65536.0L;
  Col none{0, 0, 0, 0};
  real u = t;
  switch (g.repeat) {
  case PIXMAN_REPEAT_NONE:
    if (t < 0 || t > 1) return none;
    if (t < xf || t >= xl) {
      none.any = true;  // inside [0,1] but outside the stops: only one neighbouring stop, not asserted
      return none;
    }
    break;
  case PIXMAN_REPEAT_PAD:
    if (t < xf) return premul(stopcol(st[0].color));
    if (t >= xl) return premul(stopcol(st[n - 1].color));
    break;
  case PIXMAN_REPEAT_NORMAL: {
    u = t - floorl(t);
    if (u < xf) {  // neighbours: the last stop of the previous period and the first stop
      real span = xf - (xl - 1);
      return premul(span > 0 ? lerp(stopcol(st[n - 1].color), stopcol(st[0].color), (u - (xl - 1)) / span) : stopcol(st[0].color));
    }
    if (u >= xl) {
      real span = (xf + 1) - xl;
      return premul(span > 0 ? lerp(stopcol(st[n - 1].color), stopcol(st[0].color), (u - xl) / span) : stopcol(st[n - 1].color));
    }
    break;
  }
  default: {
    u = t - 2 * floorl(t / 2);
    if (u > 1) u = 2 - u;
    if (u < xf) return premul(stopcol(st[0].color));
    if (u >= xl) return premul(stopcol(st[n - 1].color));
    break;
  }
  }
  int k = 0;
  while (k < n && !(u < st[k].x / 65536.0L)) k++;  // first stop strictly beyond u
  if (k == 0) return premul(stopcol(st[0].color));
  if (k == n) return premul(stopcol(st[n - 1].color));
  real l = st[k - 1].x / 65536.0L, r = st[k].x / 65536.0L;
  return premul(lerp(stopcol(st[k - 1].color), stopcol(st[k].color), r > l ? (u - l) / (r - l) : 1));
}

// gradient parameter at source-space point (px,py); *valid false = no admissible t (transparent)
static bool g_ill = false;  // set when the radial root is ill-conditioned (discriminant or radius at the root ~ 0)
static real param_at(const SImg &g, real px, real py, bool *valid) {
  *valid = true;
  auto G = [&](int i) { return (real)g.geom[(size_t)i] / 65536.0L; };
  if (g.kind == 2) {
    real dx = G(2) - G(0), dy = G(3) - G(1), l = dx * dx + dy * dy;
    if (l == 0) {
      *valid = false;
      return 0;
    }
    return ((px - G(0)) * dx + (py - G(1)) * dy) / l;
  }
  if (g.kind == 4) {
    real ang = G(2) / 180.0L * 3.14159265358979323846264338327950288L;
    real t = atan2l(py - G(1), px - G(0)) + ang;
    const real TWO_PI = 2 * 3.14159265358979323846264338327950288L;
    t -= TWO_PI * floorl(t / TWO_PI);
    return 1 - t / TWO_PI;
  }
  // radial: |p - (c1 + t cd)| = r1 + t dr, the larger root with r(t) >= 0 (and t in [0,1] without repeat)
  real cdx = G(2) - G(0), cdy = G(3) - G(1), dr = G(5) - G(4), r1 = G(4);
  real pdx = px - G(0), pdy = py - G(1);
  real a = cdx * cdx + cdy * cdy - dr * dr, b = pdx * cdx + pdy * cdy + r1 * dr, c = pdx * pdx + pdy * pdy - r1 * r1;
  auto admissible = [&](real t) { return g.repeat == PIXMAN_REPEAT_NONE ? (t >= 0 && t <= 1) : (r1 + t * dr >= 0); };
  if (a == 0) {
    if (b == 0) {
      *valid = false;
      return 0;
    }
    real t = c / (2 * b);
    if (!admissible(t)) *valid = false;
    return t;
  }
  real disc = b * b - a * c;
  if (fabsl(disc) <= 1e-7L * (b * b + fabsl(a * c))) g_ill = true;
  if (disc < 0) {
    *valid = false;
    return 0;
  }
  real s = sqrtl(disc), t0 = (b + s) / a, t1 = (b - s) / a;
  if (t0 < t1) std::swap(t0, t1);
  for (real tt : {t0, t1})
    if (fabsl(r1 + tt * dr) <= 1e-6L * (fabsl(r1) + fabsl(tt * dr) + 1e-9L)) g_ill = true;  // radius ~ 0 at a root: admissibility is a coin toss
  if (admissible(t0)) return t0;
  if (admissible(t1)) return t1;
  *valid = false;
  return 0;
}

// untransformed radial gradient, pixel centre exactly on the tangent line of internally tangent circles: the equation
// degenerates to 0 = c, which no t satisfies (every quantity here is an exact multiple of 2^-32, so "exactly" is decidable
// and the library decides it on the same integers)
static bool on_tangent_line_without_root(const SImg &g, real px, real py) {
  auto G = [&](int i) { return (real)g.geom[(size_t)i] / 65536.0L; };
  real cdx = G(2) - G(0), cdy = G(3) - G(1), dr = G(5) - G(4), r1 = G(4);
  real pdx = px - G(0), pdy = py - G(1);
  real a = cdx * cdx + cdy * cdy - dr * dr, b = pdx * cdx + pdy * cdy + r1 * dr, c = pdx * pdx + pdy * pdy - r1 * r1;
  return a == 0 && b == 0 && c != 0;
}

static Verdict run_case(const GCase &c) {
  Verdict v;
  const SImg &g = c.g;
  v.label(g.kind == 2 ? "linear" : g.kind == 3 ? "radial" : "conical");
  v.label(fmt("repeat%d", g.repeat));
  BuiltImg src;
  build_img(g, src, false);
  if (!src.im) {
    v.label("gradient_creation_refused");
    return v;
  }
  Bits db = gen_bits_fixed(fmt_index(c.wide ? PIXMAN_rgba_float : PIXMAN_a8r8g8b8), c.w, c.h, 77);
  db.fill = FILL_RANDOM;
  auto dst = make_image(db);
  // the destination before drawing, as reals on the 0..255 scale (a, r, g, b)
  std::vector<real> before((size_t)c.w * c.h * 4);
  for (int y = 0; y < c.h; y++)
    for (int x = 0; x < c.w; x++) {
      real *o = &before[((size_t)y * c.w + x) * 4];
      if (c.wide) {
        const float *q = (const float *)dst->rowp(y) + 4 * x;
        o[0] = q[3] * 255.0L, o[1] = q[0] * 255.0L, o[2] = q[1] * 255.0L, o[3] = q[2] * 255.0L;
      } else {
        uint32_t p = raw_get(dst->rowp(y), 32, x);
        o[0] = p >> 24, o[1] = (p >> 16) & 0xff, o[2] = (p >> 8) & 0xff, o[3] = p & 0xff;
      }
    }
  std::unique_ptr<Image> mask;
  bool ca_mask = c.masked == 2 && !c.over;
  if (c.masked && !ca_mask) {
    Bits mb = gen_bits_fixed(fmt_index(PIXMAN_a8), c.w, c.h, c.mseed);
    mb.fill = FILL_RUNS;
    mask = make_image(mb);
    v.label("a8_mask_with_runs");
  } else if (ca_mask) {
    Bits mb = gen_bits_fixed(fmt_index(PIXMAN_a8r8g8b8), c.w, c.h, c.mseed);
    mb.fill = FILL_ZERO;
    mask = make_image(mb);
    Mix mmx(c.mseed);
    int run = 0;
    uint32_t val = 0;
    for (int y = 0; y < c.h; y++)
      for (int x = 0; x < c.w; x++) {
        if (run == 0) {
          run = mmx.range(1, 6);
          val = (uint32_t[]){0u, 0xffffffffu, 0x00ffffffu, 0x00ffffffu}[mmx.range(0, 3)];
        }
        run--;
        raw_put(mask->rowp(y), 32, x, val);
      }
    pixman_image_set_component_alpha(mask->im, 1);
    v.label("component_alpha_mask");
  }
  pixman_image_composite32(c.over ? PIXMAN_OP_OVER : PIXMAN_OP_SRC, src.im, mask ? mask->im : nullptr, dst->im, c.sx, c.sy, 0, 0, 0, 0, c.w, c.h);
  if (c.over) v.label("op_over");
  // transform (real arithmetic on the exact fixed-point entries)
  real m[9] = {1, 0, 0, 0, 1, 0, 0, 0, 1};
  if (g.has_transform)
    for (int i = 0; i < 9; i++) m[i] = (real)g.m[(size_t)i] / 65536.0L;
  // coincident end points: a degenerate linear gradient is covered by the safety claim only
  if (g.kind == 2 && g.geom[0] == g.geom[2] && g.geom[1] == g.geom[3]) {
    v.label("degenerate_linear_not_asserted");
    return v;
  }
  // domain: the request rectangle expanded by one pixel must map, corner by corner, into the representable range with
  // w of one sign; otherwise the library drops the whole request (C04), which is not a colour error
  if (g.has_transform) {
    int sgn = 0;
    for (int cy = 0; cy <= 1; cy++)
      for (int cx = 0; cx <= 1; cx++) {
        real vx = c.sx - 1 + cx * (c.w + 2), vy = c.sy - 1 + cy * (c.h + 2);
        real X = m[0] * vx + m[1] * vy + m[2], Y = m[3] * vx + m[4] * vy + m[5], W = m[6] * vx + m[7] * vy + m[8];
        int sg = W > 0 ? 1 : (W < 0 ? -1 : 0);
        if (sg == 0 || (sgn && sg != sgn) || fabsl(X) >= 30000 * fabsl(W) || fabsl(Y) >= 30000 * fabsl(W)) {
          v.label("skipped_request_outside_representable_range");
          return v;
        }
        sgn = sg;
      }
  }
  int checked = 0, skipped = 0, crossings = 0;
  // narrowest non-empty stop interval (incl. the wrap-around interval of the repeating modes)
  real wmin = 1;
  for (size_t i = 1; i < g.stops.size(); i++)
    if (g.stops[i].x > g.stops[i - 1].x) wmin = std::min(wmin, (real)(g.stops[i].x - g.stops[i - 1].x) / 65536);
  if (g.repeat == PIXMAN_REPEAT_REFLECT) {
    // the intervals that straddle the mirror points: [-x0, x0] around even and [xl, 2 - xl] around odd integers
    real w0 = 2 * (real)g.stops[0].x / 65536, w1 = 2 * (real)(65536 - g.stops.back().x) / 65536;
    if (w0 > 0) wmin = std::min(wmin, w0);
    if (w1 > 0) wmin = std::min(wmin, w1);
  } else {
    real wrap = (real)(g.stops[0].x + 65536 - g.stops.back().x) / 65536;
    if (wrap > 0) wmin = std::min(wmin, wrap);
  }
  real prev_t = 0;
  bool have_prev = false;
  for (int y = 0; y < c.h && v.ok; y++)
    for (int x = 0; x < c.w && v.ok; x++) {
      // parameter at the pixel centre and at positions a few 1/65536 away (the library computes positions in 16.16 and
      // t in 16.16): the admissible range of t
      real tlo = 1e300L, thi = -1e300L;
      bool all_valid = true, none_valid = true, degenerate = false;
      g_ill = false;
      bool exact_no_root = g.kind == 3 && !g.has_transform && on_tangent_line_without_root(g, c.sx + x + 0.5L, c.sy + y + 0.5L);
      if (exact_no_root) {
        all_valid = false;
        v.label("pixel_centre_exactly_on_the_tangent_line");
      }
      for (int k = 0; k < 5 && !exact_no_root; k++) {
        real vx = c.sx + x + 0.5L, vy = c.sy + y + 0.5L;
        real X = m[0] * vx + m[1] * vy + m[2], Y = m[3] * vx + m[4] * vy + m[5], W = m[6] * vx + m[7] * vy + m[8];
        // the library rounds X, Y and W to 16.16 before dividing: the position is known to about
        // (1 + |X/W|) / |W| units of 1/65536, times a small factor
        real unit = 3.0L / 65536;
        if (fabsl(W) >= 1e-3L) unit *= (1 + (fabsl(X) + fabsl(Y)) / fabsl(W)) / std::min<real>(1, fabsl(W)) * (W == 1 ? 1 : 1.0L);
        if (m[6] == 0 && m[7] == 0 && m[8] == 1) unit = 3.0L / 65536;
        real ex = (k == 1 ? 1 : k == 2 ? -1 : 0) * unit, ey = (k == 3 ? 1 : k == 4 ? -1 : 0) * unit;
        if (fabsl(W) < 1e-3L) {
          degenerate = true;
          break;
        }
        real px = X / W + ex, py = Y / W + ey;
        if (fabsl(px) > 30000 || fabsl(py) > 30000) {
          degenerate = true;
          break;
        }
        bool ok;
        real t = param_at(g, px, py, &ok);
        if (ok) {
          none_valid = false;
          tlo = std::min(tlo, t);
          thi = std::max(thi, t);
        } else
          all_valid = false;
      }
      if (degenerate || g_ill || (!all_valid && !none_valid)) {
        skipped++;  // ill-conditioned: admissibility flips within a hair of the pixel centre
        continue;
      }
      uint32_t got = 0;
      real gv[4];
      if (c.wide) {
        const float *q = (const float *)dst->rowp(y) + 4 * x;
        gv[0] = q[3] * 255.0L;
        gv[1] = q[0] * 255.0L;
        gv[2] = q[1] * 255.0L;
        gv[3] = q[2] * 255.0L;
      } else {
        got = raw_get(dst->rowp(y), 32, x);
        gv[0] = got >> 24;
        gv[1] = (got >> 16) & 0xff;
        gv[2] = (got >> 8) & 0xff;
        gv[3] = got & 0xff;
      }
      const real *bf = &before[((size_t)y * c.w + x) * 4];
      bool ca_colour_only = false;
      if (mask && ca_mask) {
        uint32_t mv = raw_get(mask->rowp(y), 32, x);
        if (mv == 0) {
          for (int k = 0; k < 4; k++)
            if (fabsl(gv[k]) > 1e-3L) v.fail(fmt("pixel (%d,%d) is masked out (component alpha 0) but channel %d is %.3Lf", x, y, k, gv[k]));
          checked++;
          continue;
        }
        ca_colour_only = mv == 0x00ffffffu;  // SRC: alpha channel times 0, colour channels times 1
      } else if (mask) {
        uint32_t mv = raw_get(mask->rowp(y), 8, x);
        if (mv == 0) {
          // masked out: SRC writes transparent black, OVER leaves the destination alone
          for (int k = 0; k < 4; k++) {
            real want = c.over ? bf[k] : 0;
            if (fabsl(gv[k] - want) > 1e-3L) v.fail(fmt("pixel (%d,%d) is masked out but channel %d is %.3Lf (expected %.3Lf)", x, y, k, gv[k], want));
          }
          checked++;
          continue;
        }
        if (mv != 0xff) {
          skipped++;  // partial mask values: a second rounding the statement says nothing about
          continue;
        }
      }
      if (none_valid) {
        // no admissible t: transparent (SRC), i.e. the destination is left exactly as it was (OVER)
        for (int k = 0; k < 4; k++) {
          if (!c.over && gv[k] > 1.001L) v.fail(fmt("pixel (%d,%d): no admissible parameter (must be transparent) but channel %d is %.2Lf", x, y, k, gv[k]));
          if (c.over && fabsl(gv[k] - bf[k]) > 1e-3L)
            v.fail(fmt("pixel (%d,%d): no admissible parameter, so OVER must leave the destination alone, but channel %d went from %.3Lf to %.3Lf", x, y, k, bf[k], gv[k]));
        }
        checked++;
        v.label("pixel_without_admissible_parameter");
        continue;
      }
      // the parameter itself is carried in 16.16 and evaluated in single precision: allow a relative error as well
      // far outside [0,1] a gradient without periodic repeat is constant (the end stop under PAD, transparent under NONE):
      // no precision question arises however large |t| is
      if ((g.repeat == PIXMAN_REPEAT_NONE || g.repeat == PIXMAN_REPEAT_PAD) && (tlo > 1 + 1e-3L * (1 + fabsl(thi)) || thi < -1e-3L * (1 + fabsl(tlo)))) {
        tlo = thi = tlo > 1 ? 2 : -1;
        v.label("constant_zone_beyond_the_stops");
      }
      real slack = 4.0L / 65536 + (thi - tlo) + 2e-5L * std::max(fabsl(tlo), fabsl(thi));
      if (thi - tlo > 0.02L || std::max(fabsl(tlo), fabsl(thi)) > 1000) {  // (beyond |t| ~ 1000 the single-precision walker cannot resolve narrow stop intervals)
        skipped++;  // seam of a conical gradient / ill-conditioned radial root
        continue;
      }
      tlo -= slack;
      thi += slack;
      // range of the reference colour over [tlo,thi]: endpoints, interior samples and both sides of every stop image
      real lo[4] = {1e9, 1e9, 1e9, 1e9}, hi[4] = {-1e9, -1e9, -1e9, -1e9};
      bool any = false;
      auto take = [&](real t) {
        Col col = colour_at(g, t);
        if (col.any) any = true;
        real cv[4] = {col.a * 255, col.r * 255, col.g * 255, col.b * 255};
        for (int k = 0; k < 4; k++) {
          lo[k] = std::min(lo[k], cv[k]);
          hi[k] = std::max(hi[k], cv[k]);
        }
      };
      // break points of the piecewise function inside [tlo,thi]: images of the stops and of 0/1 under the repeat
      std::vector<real> bp{tlo, thi};
      for (auto &s : g.stops) {
        real xs = s.x / 65536.0L;
        for (real base = floorl(tlo) - 1; base <= thi + 1; base += 1)
          for (real cand : {base + xs, base + 1 - xs, base - xs})
            if (cand >= tlo && cand <= thi) bp.push_back(cand);
      }
      for (real b0 : {0.0L, 1.0L})
        if (b0 >= tlo && b0 <= thi) bp.push_back(b0);
      std::sort(bp.begin(), bp.end());
      // both sides of every break point, and the inside of every piece: between two stops the premultiplied colour is
      // the product of two linear functions, so its extreme value can lie strictly inside the piece
      for (size_t i = 0; i < bp.size(); i++) {
        take(bp[i] - 1e-7L);
        take(bp[i]);
        take(bp[i] + 1e-7L);
        if (i + 1 < bp.size() && bp[i + 1] > bp[i])
          for (int k = 1; k < 16; k++) take(bp[i] + (bp[i + 1] - bp[i]) * k / 16);
      }
      if (any) {
        skipped++;
        continue;
      }
      // the colour ramp is evaluated in single precision in slope/intercept form: with |t| large and a narrow stop
      // interval the two terms cancel; the achievable accuracy is about |t| / width * 2^-23 of full scale
      real cond = std::max(fabsl(tlo), fabsl(thi)) / wmin;
      if (cond > 20000) {
        skipped++;
        continue;
      }
      real tol = 1.01L + cond * 255 * 4.8e-7L;  // ~8 single-precision roundings of terms of magnitude cond
      if (c.over) {
        // OVER: s + d * (1 - sa), with s and sa anywhere in their reference ranges (one more rounding step in 8 bits)
        real alo = std::max<real>(0, lo[0] - tol) / 255, ahi = std::min<real>(255, hi[0] + tol) / 255;
        for (int k = 0; k < 4; k++) {
          lo[k] += bf[k] * (1 - ahi);
          hi[k] += bf[k] * (1 - alo);
        }
        tol += 0.51L;
      }
      // a colour channel is the product of two such interpolants (alpha and the non-premultiplied colour): twice the
      // single-precision term
      real tolc = tol + cond * 255 * 4.8e-7L;
      if (ca_colour_only) lo[0] = hi[0] = 0;  // (the colour channels are those of the unmasked gradient)
      for (int k = 0; k < 4 && v.ok; k++)
        if (gv[k] < lo[k] - (k ? tolc : tol) || gv[k] > hi[k] + (k ? tolc : tol))
          v.fail(fmt("%s gradient repeat %d pixel (%d,%d): channel %d is %.2Lf, reference over t in [%.6Lf,%.6Lf] is [%.2Lf,%.2Lf] (%s destination)", g.kind == 2 ? "linear" : g.kind == 3 ? "radial" : "conical",
                     g.repeat, x, y, k, gv[k], tlo, thi, lo[k], hi[k], c.wide ? "float" : "8-bit"));
      checked++;
      real tm = (tlo + thi) / 2;
      if (have_prev) {
        // crossed a stop image or a repeat seam between neighbouring pixels?
        if (floorl(tm) != floorl(prev_t)) crossings++;
        for (auto &s : g.stops) {
          real xs = s.x / 65536.0L, fa = tm - floorl(tm), fb = prev_t - floorl(prev_t);
          if ((fa < xs) != (fb < xs)) crossings++;
        }
      }
      prev_t = tm;
      have_prev = true;
    }
  v.nontrivial = checked > 0 && crossings > 0;
  if (skipped) v.label("pixels_skipped_ill_conditioned_or_unpinned");
  if (c.wide) v.label("wide_destination");
  if (g.has_transform) v.label("transformed");
  return v;
}

// safety claim: arbitrary stop lists / degenerate geometry / singular transforms never crash, hang or read outside
static Verdict run_unsafe(const GCase &c) {
  Verdict v;
  BuiltImg src;
  build_img(c.g, src, false);
  if (!src.im) {
    v.label("gradient_creation_refused");
    return v;
  }
  Bits db = gen_bits_fixed(fmt_index(c.wide ? PIXMAN_rgba_float : PIXMAN_a8r8g8b8), c.w, c.h, 77);
  auto dst = make_image(db);
  pixman_image_composite32(PIXMAN_OP_SRC, src.im, nullptr, dst->im, c.sx, c.sy, 0, 0, 0, 0, c.w, c.h);
  pixman_image_composite32(PIXMAN_OP_OVER, src.im, nullptr, dst->im, c.sx, c.sy, 0, 0, 0, 0, c.w, c.h);
  bool unsorted = false;
  for (size_t i = 1; i < c.g.stops.size(); i++) unsorted |= c.g.stops[i].x < c.g.stops[i - 1].x;
  v.nontrivial = unsorted || c.g.stops.size() == 1;
  if (unsorted) v.label("unsorted_stops");
  return v;
}

static void register_props() {
  add_prop<GCase>("gradient", gen_case, run_case);
  add_prop<GCase>("gradsafe", gen_unsafe, run_unsafe);
}
VF_MAIN()
