// C08: transformed sources are sampled at the documented position, filter and repeat (DESIGN.md §4 C08).
// OP_SRC from a small transformed source into a8r8g8b8; every destination pixel is compared with ref_sample, an
// independent implementation of rounding.txt: exact matrix product rounded half-up per row, projective quotient,
// nearest = floor(x - e), bilinear with 7-bit weights, (separable) convolution alignment, four repeat modes.
#include "scene.hpp"
#include "ref_combine.hpp"
using namespace vf;
using namespace img;
using namespace scene;
typedef __int128 i128;

struct SCase {
  Scene sc;
  template <class A> void io(A &a) { a.f("sc", sc); }
};

// ---------------------------------------------------------------- reference
struct Ref {
  const Image *im;
  const SImg *d;
  std::vector<pixman_fixed_t> params;
  int w, h;
  // source pixel as a8r8g8b8; out of bounds handled by the caller
  const Image *amap = nullptr;  // the source's alpha map: replaces the alpha of every source pixel (0 outside the map)
  int ax = 0, ay = 0;
  uint32_t px(int x, int y) const {
    pixman_format_code_t f = im->d.code();
    uint32_t raw = raw_get(im->rowp(y), bpp(f), x);
    uint32_t p = is_indexed(f) ? im->pal->rgba[raw] : decode8888(f, raw);
    if (amap) {
      int mx = x - ax, my = y - ay;
      uint32_t a = 0;
      if (mx >= 0 && my >= 0 && mx < amap->d.w && my < amap->d.h) {
        pixman_format_code_t mf = amap->d.code();
        a = decode8888(mf, raw_get(amap->rowp(my), bpp(mf), mx)) & 0xff000000u;
      }
      p = (p & 0x00ffffffu) | a;
    }
    return p;
  }
  static int64_t mod(int64_t a, int64_t b) { return ((a % b) + b) % b; }
  // repeat: returns false when the sample is transparent (REPEAT_NONE outside)
  bool rep(int64_t &c, int size) const {
    switch (d->repeat) {
    case PIXMAN_REPEAT_NONE: return c >= 0 && c < size;
    case PIXMAN_REPEAT_NORMAL: c = mod(c, size); return true;
    case PIXMAN_REPEAT_PAD: c = c < 0 ? 0 : (c >= size ? size - 1 : c); return true;
    default: {
      c = mod(c, 2 * (int64_t)size);
      if (c >= size) c = 2 * (int64_t)size - c - 1;
      return true;
    }
    }
  }
  uint32_t get(int64_t x, int64_t y) const {
    if (!rep(x, w) || !rep(y, h)) return 0;
    return px((int)x, (int)y);
  }
  static int64_t fl16(int64_t v) { return v >> 16; }  // floor(v / 65536) for two's complement
  uint32_t nearest(int64_t X, int64_t Y) const { return get(fl16(X - 1), fl16(Y - 1)); }
  uint32_t bilinear(int64_t X, int64_t Y) const {
    int64_t x1 = X - 32768, y1 = Y - 32768;
    int dx = (int)((x1 >> 9) & 0x7f), dy = (int)((y1 >> 9) & 0x7f);  // 7-bit fractional weights
    int64_t px0 = fl16(x1), py0 = fl16(y1);
    uint32_t tl = get(px0, py0), tr = get(px0 + 1, py0), bl = get(px0, py0 + 1), br = get(px0 + 1, py0 + 1);
    // weights scaled to 8 bits; (sum of w*c) >> 16, truncating
    int wx = dx << 1, wy = dy << 1;
    int64_t wbr = (int64_t)wx * wy, wtr = (int64_t)wx * (256 - wy), wbl = (int64_t)(256 - wx) * wy, wtl = (int64_t)(256 - wx) * (256 - wy);
    uint32_t out = 0;
    for (int sh = 0; sh < 32; sh += 8) {
      int64_t v = wtl * ((tl >> sh) & 0xff) + wtr * ((tr >> sh) & 0xff) + wbl * ((bl >> sh) & 0xff) + wbr * ((br >> sh) & 0xff);
      out |= (uint32_t)((v >> 16) & 0xff) << sh;
    }
    return out;
  }
  // the floating-point pipeline blends with the full 16-bit fractions and does not truncate: real-valued result (a,r,g,b)
  void bilinear_real(int64_t X, int64_t Y, long double out[4]) const {
    int64_t x1 = X - 32768, y1 = Y - 32768;
    long double dx = (long double)(x1 & 0xffff) / 65536, dy = (long double)(y1 & 0xffff) / 65536;
    int64_t px0 = fl16(x1), py0 = fl16(y1);
    uint32_t c[4] = {get(px0, py0), get(px0 + 1, py0), get(px0, py0 + 1), get(px0 + 1, py0 + 1)};
    long double w[4] = {(1 - dx) * (1 - dy), dx * (1 - dy), (1 - dx) * dy, dx * dy};
    for (int k = 0; k < 4; k++) {
      out[k] = 0;
      for (int i = 0; i < 4; i++) out[k] += w[i] * ((c[i] >> (24 - 8 * k)) & 0xff);
    }
  }
  static uint32_t reduce(const int64_t t[4]) {
    uint32_t out = 0;
    for (int k = 0; k < 4; k++) {
      int64_t v = (t[k] + 0x8000) >> 16;  // floor
      if (v < 0) v = 0;
      if (v > 255) v = 255;
      out |= (uint32_t)v << (8 * k);
    }
    return out;
  }
  uint32_t convolution(int64_t X, int64_t Y) const {
    int cw = params[0] >> 16, ch = params[1] >> 16;
    int64_t xoff = ((int64_t)params[0] - 65536) >> 1, yoff = ((int64_t)params[1] - 65536) >> 1;
    int64_t x1 = fl16(X - 1 - xoff), y1 = fl16(Y - 1 - yoff);  // k = floor(x - (width-1)/2 - e)
    int64_t t[4] = {0, 0, 0, 0};
    const pixman_fixed_t *p = params.data() + 2;
    for (int i = 0; i < ch; i++)
      for (int j = 0; j < cw; j++) {
        int64_t f = *p++;
        if (!f) continue;
        uint32_t c = get(x1 + j, y1 + i);
        for (int k = 0; k < 4; k++) t[k] += (int64_t)((c >> (8 * k)) & 0xff) * f;
      }
    return reduce(t);
  }
  uint32_t separable(int64_t X, int64_t Y) const {
    int cw = params[0] >> 16, ch = params[1] >> 16, bx = params[2] >> 16, by = params[3] >> 16;
    int sx = 16 - bx, sy = 16 - by;
    // x is first rounded to the middle of the closest of 2^bits phases
    X = ((X >> sx) << sx) + ((1 << sx) >> 1);
    Y = ((Y >> sy) << sy) + ((1 << sy) >> 1);
    int phx = (int)((X & 0xffff) >> sx), phy = (int)((Y & 0xffff) >> sy);
    int64_t xoff = (((int64_t)cw << 16) - 65536) >> 1, yoff = (((int64_t)ch << 16) - 65536) >> 1;
    int64_t x1 = fl16(X - 1 - xoff), y1 = fl16(Y - 1 - yoff);
    const pixman_fixed_t *xp = params.data() + 4 + phx * cw, *yp = params.data() + 4 + (1 << bx) * cw + phy * ch;
    int64_t t[4] = {0, 0, 0, 0};
    for (int i = 0; i < ch; i++) {
      int64_t fy = yp[i];
      if (!fy) continue;
      for (int j = 0; j < cw; j++) {
        int64_t fx = xp[j];
        if (!fx) continue;
        int64_t f = (fy * fx + 0x8000) >> 16;
        uint32_t c = get(x1 + j, y1 + i);
        for (int k = 0; k < 4; k++) t[k] += (int64_t)((c >> (8 * k)) & 0xff) * f;
      }
    }
    return reduce(t);
  }
  uint32_t sample(int64_t X, int64_t Y) const {
    switch (d->filter) {
    case 0:
    case 4: return nearest(X, Y);  // FAST = NEAREST
    case 1:
    case 5:
    case 6: return bilinear(X, Y);  // GOOD/BEST = BILINEAR
    case 2: return convolution(X, Y);
    default: return separable(X, Y);
    }
  }
};

// round-half-up of n / 65536
static int64_t rhu(i128 n) { return (int64_t)((n + 32768) >> 16); }

static SCase gen_case() {
  SCase c;
  Scene &sc = c.sc;
  sc.op = PIXMAN_OP_SRC;
  sc.w = (int)R(1, 12);
  sc.h = (int)R(1, 4);
  sc.dst.bits = gen_bits(fmt_index(PIXMAN_a8r8g8b8), 1, 1);
  sc.dst.bits.w = sc.w;
  sc.dst.bits.h = sc.h;
  if (coin(25)) {  // split the scanlines with a clip so that they start at different x
    sc.dst.has_clip = 1;
    sc.dst.clip = gen_clip(sc.w, sc.h, 3);
  }
  SImg &s = sc.src;
  s.kind = 0;
  int f = coin(70) ? fmt_index(pick<pixman_format_code_t>({PIXMAN_a8r8g8b8, PIXMAN_x8r8g8b8, PIXMAN_r5g6b5, PIXMAN_a8}))
                   : fmt_index(pick<pixman_format_code_t>({PIXMAN_a8b8g8r8, PIXMAN_b8g8r8a8, PIXMAN_a1r5g5b5, PIXMAN_a4r4g4b4, PIXMAN_r3g3b2, PIXMAN_a4, PIXMAN_a1, PIXMAN_r8g8b8, PIXMAN_c8, PIXMAN_x4a4}));
  s.bits = gen_bits(f, 1, 1);
  s.bits.w = (int)R(1, 9);
  s.bits.h = (int)R(1, 9);
  s.bits.fill = pickw({6, 2, 1, 2, 0, 0, 0});
  s.has_transform = 1;
  int tkind = pickw({1, 4, 5, 3, 5, 4});
  if ((tkind == 3 || tkind == 2) && coin(50)) {
    // long spans: the rotation / scaling fast paths work in cache-line sized tiles with separate head and tail code
    sc.w = (int)R(13, 90);
    sc.h = (int)R(1, 5);
    sc.dst.bits.w = sc.w;
    sc.dst.bits.h = sc.h;
    if (sc.dst.has_clip) sc.dst.clip = gen_clip(sc.w, sc.h, 3);
    int side = std::max(sc.w, sc.h) + (int)R(4, 9);
    s.bits.w = side;
    s.bits.h = tkind == 3 ? side : (int)R(2, 9);
    if (coin(50)) s.bits.fmt = fmt_index(pick<pixman_format_code_t>({PIXMAN_a8r8g8b8, PIXMAN_r5g6b5, PIXMAN_a8}));
  }
  s.m = gen_transform(tkind, s.bits.w, s.bits.h);
  if (coin(20)) {
    // steer the first sample exactly onto / next to a pixel boundary
    s.m[2] = R(-2, s.bits.w + 1) * 65536 + pick<int64_t>({0, 1, -1, 2, 32768, 32767, 32769}) - s.m[0] / 2;
    s.m[5] = R(-2, s.bits.h + 1) * 65536 + pick<int64_t>({0, 1, -1, 2, 32768, 32767, 32769}) - s.m[4] / 2;
  }
  if (coin(8))
    for (auto &e : s.m) e = -e;  // the same map in homogeneous coordinates, with w negative at every pixel (seeded C08s)
  s.filter = pickw({5, 5, 3, 4, 1, 1, 1});
  if (s.filter == 2) {
    s.kw = (int)R(1, 5);
    s.kh = (int)R(1, 5);
  }
  if (s.filter == 3) {
    s.kw = (int)R(1, 5);
    s.kh = (int)R(1, 5);
    s.kbx = (int)R(0, 4);
    s.kby = (int)R(0, 4);
  }
  s.kseed = seed64();
  s.kneg = coin(50);
  s.repeat = (int)R(0, 3);
  sc.sx = (int)R(-2, 3);
  sc.sy = (int)R(-2, 3);
  if (coin(10)) {
    // the source carries an alpha map (smaller or larger than itself, at any origin): the general fetchers then replace
    // the alpha of every pixel they read, in the 8-bit and in the floating-point pipeline
    s.has_alpha_map = 1;
    s.amap = gen_bits(fmt_index(pick<pixman_format_code_t>({PIXMAN_a8, PIXMAN_a8, PIXMAN_a4, PIXMAN_a1, PIXMAN_a8r8g8b8})), 1, 1);
    s.amap.w = std::max(1, s.bits.w + (int)R(-3, 2));
    s.amap.h = std::max(1, s.bits.h + (int)R(-3, 2));
    s.ax = (int)R(-2, 3);
    s.ay = (int)R(-2, 3);
  }
  if (coin(12)) {
    // floating-point destination: the same sampling rules through the wide fetchers (compared within a tolerance)
    sc.dst.bits.fmt = fmt_index(PIXMAN_rgba_float);
  }
  if (coin(6)) {
    // a very wide source sampled with a large step, starting far left of the image: position and bounds arithmetic with
    // sums beyond 2^31 units, every sample position still inside the +-32767 pixel range
    sc.w = (int)R(8, 90);
    sc.h = (int)R(1, 2);
    sc.dst.bits.w = sc.w;
    sc.dst.bits.h = sc.h;
    sc.dst.has_clip = 0;
    s.bits.fmt = fmt_index(pick<pixman_format_code_t>({PIXMAN_a8r8g8b8, PIXMAN_x8r8g8b8, PIXMAN_r5g6b5, PIXMAN_a8}));
    s.bits.w = pick<int>({20000, 24000, 30000, 32000});
    s.bits.h = (int)R(1, 2);
    int64_t span = R(14000, 30000);
    s.m = {std::min<int64_t>(2000 * 65536, std::max<int64_t>(65536, span * 65536 / (sc.w + 4))), 0, 0, 0, 65536, R(0, 65535), 0, 0, 65536};
    sc.sx = (int)R(0, 3);
    sc.sy = 0;
    s.m[2] = -R(span / 4, 3 * span / 4) * 65536 + R(0, 65535);
    s.filter = pickw({5, 5});
    s.repeat = pickw({4, 1, 4, 1});
  }
  if (sc.dst.bits.code() != PIXMAN_rgba_float && coin(15)) {
    // through an untransformed a8 mask with runs of 0x00 and 0xff, with SRC or OVER: scanline code that skips groups of
    // masked-out pixels must keep its sampling position and interpolation weights in step
    sc.has_mask = 1;
    sc.mask = SImg();
    sc.mask.kind = 0;
    sc.mask.bits = gen_bits(fmt_index(PIXMAN_a8), 1, 1);
    sc.mask.bits.w = sc.w + (int)R(0, 5);
    sc.mask.bits.h = sc.h + (int)R(0, 2);
    sc.mask.bits.fill = coin(70) ? FILL_RUNS : FILL_RANDOM;
    sc.mx = (int)R(0, sc.mask.bits.w - sc.w);
    sc.my = (int)R(0, sc.mask.bits.h - sc.h);
    sc.op = coin(60) ? PIXMAN_OP_OVER : PIXMAN_OP_SRC;
    if (coin(60)) {
      // the shapes that have scaled fast paths with a mask: scale only, 8888/565
      s.bits.fmt = fmt_index(pick<pixman_format_code_t>({PIXMAN_a8r8g8b8, PIXMAN_a8r8g8b8, PIXMAN_x8r8g8b8, PIXMAN_r5g6b5}));
      if (s.bits.w < 20000) {
        sc.w = (int)R(8, 70);
        sc.dst.bits.w = sc.w;
        sc.mask.bits.w = sc.w + (int)R(0, 5);
        sc.mx = (int)R(0, sc.mask.bits.w - sc.w);
        sc.dst.has_clip = 0;
        s.m = gen_transform(2, 20, 20);
        s.m[0] = std::llabs(s.m[0]);
        s.m[4] = std::llabs(s.m[4]);
        s.bits.w = std::max<int>(2, (int)((int64_t)(sc.w + 6) * s.m[0] / 65536) + (int)R(0, 4));
        s.bits.h = std::max<int>(1, (int)((int64_t)(sc.h + 3) * s.m[4] / 65536) + (int)R(0, 3));
        s.bits.w = std::min(s.bits.w, 600);
        s.bits.h = std::min(s.bits.h, 30);
        s.filter = pickw({4, 6});
      }
    }
  }
  return c;
}

static Verdict run_case(const SCase &c) {
  Verdict v;
  const Scene &sc = c.sc;
  const SImg &s = sc.src;
  Built b;
  build(sc, b);
  if (!b.ok) {
    v.fail("image creation failed");
    return v;
  }
  Ref ref;
  ref.im = b.s.bits.get();
  if (s.has_alpha_map && b.s.amap) {
    ref.amap = b.s.amap.get();
    ref.ax = s.ax;
    ref.ay = s.ay;
  }
  ref.d = &s;
  ref.params = b.s.params;
  ref.w = s.bits.w;
  ref.h = s.bits.h;
  // all sample positions must be representable 16.16 values, else the request is outside the stated domain
  std::vector<int64_t> m = s.m;
  bool affine = m[6] == 0 && m[7] == 0 && m[8] == 65536;
  struct Pos {
    int64_t x, y, x2, y2;
    bool has2, dropped;
  };
  std::vector<Pos> pos((size_t)sc.w * sc.h);
  bool in_domain = true, projective_w_nonpos = false;
  for (int j = 0; j < sc.h; j++)
    for (int i = 0; i < sc.w; i++) {
      int64_t vx = ((int64_t)(sc.sx + i) << 16) + 32768, vy = ((int64_t)(sc.sy + j) << 16) + 32768;
      int64_t X = rhu((i128)m[0] * vx + (i128)m[1] * vy + (i128)m[2] * 65536);
      int64_t Y = rhu((i128)m[3] * vx + (i128)m[4] * vy + (i128)m[5] * 65536);
      int64_t W = rhu((i128)m[6] * vx + (i128)m[7] * vy + (i128)m[8] * 65536);
      Pos p{X, Y, X, Y, false, false};
      auto in32 = [](int64_t q) { return q > INT32_MIN + 70000 && q < INT32_MAX - 70000; };
      if (!in32(X) || !in32(Y) || !in32(W)) in_domain = false;
      if (!affine) {
        if (W == 0) {
          p.x = p.y = 0;  // documented fallback: position 0
        } else {
          // quotient x * 65536 / w: rounding toward zero or toward -infinity are both accepted
          i128 nx = (i128)X * 65536, ny = (i128)Y * 65536;
          auto trunc = [](i128 n, i128 d) { return (int64_t)(n / d); };
          auto floord = [](i128 n, i128 d) {
            i128 q = n / d;
            if ((n % d != 0) && ((n < 0) != (d < 0))) q -= 1;
            return (int64_t)q;
          };
          p.x = trunc(nx, W);
          p.y = trunc(ny, W);
          p.x2 = floord(nx, W);
          p.y2 = floord(ny, W);
          p.has2 = p.x2 != p.x || p.y2 != p.y;
          if (!in32(p.x) || !in32(p.y) || !in32(p.x2) || !in32(p.y2)) in_domain = false;
          if (W <= 0) projective_w_nonpos = true;
        }
      }
      pos[(size_t)j * sc.w + i] = p;
    }
  // The library bounds the request by transforming the corners of the rectangle (pixel edges, widened by the filter's
  // reach) and drops the request when those leave the 16-bit pixel range (C04: "dropped or clamped").  The stated domain
  // is "sample positions stay in the 16.16 range"; we take the slightly smaller, corner-based one so that a dropped
  // request is never mistaken for a wrong sample: all four corners within +-30000 pixels and w of one sign.
  {
    int sgn = 0;
    for (int cy = 0; cy <= 1 && in_domain; cy++)
      for (int cx = 0; cx <= 1 && in_domain; cx++) {
        // (the rectangle expanded by one pixel on every side, as the library does)
        int64_t vx = (int64_t)(sc.sx - 1 + cx * (sc.w + 2)) << 16, vy = (int64_t)(sc.sy - 1 + cy * (sc.h + 2)) << 16;
        i128 X = (i128)m[0] * vx + (i128)m[1] * vy + (i128)m[2] * 65536, Y = (i128)m[3] * vx + (i128)m[4] * vy + (i128)m[5] * 65536,
             W = (i128)m[6] * vx + (i128)m[7] * vy + (i128)m[8] * 65536;
        if (W == 0) {
          in_domain = false;
          break;
        }
        int sg = W > 0 ? 1 : -1;
        if (sgn && sg != sgn) in_domain = false;
        sgn = sg;
        // |X/W| < 30000 pixels
        i128 lim = (W < 0 ? -W : W) * 30000;
        if ((X < 0 ? -X : X) >= lim || (Y < 0 ? -Y : Y) >= lim) in_domain = false;
      }
  }
  if (!in_domain) {
    v.label("skipped_positions_leave_16_16_range");
    return v;
  }
  draw(sc, b);
  // which destination pixels are inside the clip?
  Boxes R{{0, 0, sc.w, sc.h}};
  if (sc.dst.has_clip) R = rr::combine(R, sc.dst.clip, rr::INTER);
  std::set<uint32_t> distinct_src;
  bool near_boundary = false, outside = false;
  for (int j = 0; j < sc.h && v.ok; j++)
    for (int i = 0; i < sc.w && v.ok; i++) {
      if (!rr::contains(R, i, j)) continue;
      const Pos &p = pos[(size_t)j * sc.w + i];
      if (sc.dst.bits.code() == PIXMAN_rgba_float) {
        // the wide pipeline: the same sample, computed in floating point (no truncation of the weighted sums, sources
        // with fewer than 8 bits per channel widened as v/(2^n-1)): within 0.6 steps for nearest, 1.6 otherwise
        const float *q = (const float *)b.d.bits->rowp(j) + 4 * i;
        long double gv[4] = {q[3] * 255.0L, q[0] * 255.0L, q[1] * 255.0L, q[2] * 255.0L};
        // tolerance: sources with fewer than 8 bits per channel are widened as v/(2^n-1) here and by bit replication in
        // the reference (up to 0.94 steps apart); the 8-bit reference of the kernels rounds its sums (0.5)
        pixman_format_code_t sfm = s.bits.code();
        bool sub8 = is_indexed(sfm) ? false : ((abits(sfm) && abits(sfm) < 8) || (rbits(sfm) && rbits(sfm) < 8) || (gbits(sfm) && gbits(sfm) < 8) || (bbits(sfm) && bbits(sfm) < 8));
        // (a kernel with negative taps amplifies the widening difference by the sum of its absolute coefficients)
        long double gain = 1;
        if (s.filter == 2 && ref.params.size() > 2) {
          gain = 0;
          for (size_t k = 2; k < ref.params.size(); k++) gain += fabsl((long double)ref.params[k]) / 65536;
        } else if (s.filter == 3 && ref.params.size() > 4) {
          int cw = ref.params[0] >> 16, ch = ref.params[1] >> 16, nx = 1 << (ref.params[2] >> 16), ny = 1 << (ref.params[3] >> 16);
          long double gx = 0, gy = 0;
          for (int ph = 0; ph < nx; ph++) {
            long double t = 0;
            for (int k = 0; k < cw; k++) t += fabsl((long double)ref.params[(size_t)(4 + ph * cw + k)]) / 65536;
            gx = std::max(gx, t);
          }
          for (int ph = 0; ph < ny; ph++) {
            long double t = 0;
            for (int k = 0; k < ch; k++) t += fabsl((long double)ref.params[(size_t)(4 + nx * cw + ph * ch + k)]) / 65536;
            gy = std::max(gy, t);
          }
          gain = gx * gy;
        }
        gain = std::max<long double>(gain, 1);
        long double tol = 0.1L + (sub8 ? 0.72L * gain : 0) + ((s.filter == 2 || s.filter == 3) ? 0.55L + 0.05L * gain : 0);
        bool bil = s.filter == 1 || s.filter == 5 || s.filter == 6;
        auto close_at = [&](int64_t X, int64_t Y) {
          long double wv[4];
          if (bil) ref.bilinear_real(X, Y, wv);  // (the 7-bit weights of the statement belong to the 8-bit fetchers)
          else {
            uint32_t w8 = ref.sample(X, Y);
            wv[0] = w8 >> 24, wv[1] = (w8 >> 16) & 0xff, wv[2] = (w8 >> 8) & 0xff, wv[3] = w8 & 0xff;
          }
          for (int k = 0; k < 4; k++)
            if (fabsl(gv[k] - wv[k]) > tol) return false;
          return true;
        };
        uint32_t want = ref.sample(p.x, p.y);
        bool ok = close_at(p.x, p.y);
        if (!ok && p.has2)
          for (int k = 1; k < 4 && !ok; k++) ok = close_at(k & 1 ? p.x2 : p.x, k & 2 ? p.y2 : p.y);
        if (!ok)
          v.fail(fmt("dest (%d,%d) [float pipeline]: source position (%lld,%lld)/65536 filter %d repeat %d source %dx%d %s%s: fetched a=%.2Lf r=%.2Lf g=%.2Lf b=%.2Lf, reference %08x", i, j, (long long)p.x,
                     (long long)p.y, s.filter, s.repeat, s.bits.w, s.bits.h, FORMATS[s.bits.fmt].name, s.has_alpha_map ? " + alpha map" : "", gv[0], gv[1], gv[2], gv[3], want));
        distinct_src.insert(want);
        continue;
      }
      uint32_t got = raw_get(b.d.bits->rowp(j), 32, i);
      // what reaches the destination: the fetched value itself (SRC, no mask), or the fetched value IN the mask, combined
      // with the old destination by the exact 8-bit rule (all formats involved are narrow)
      auto final_px = [&](uint32_t fetched) -> uint32_t {
        if (!sc.has_mask) return fetched;
        uint32_t ma = raw_get(b.m.bits->rowp(sc.my + j), 8, sc.mx + i);
        const uint8_t *old_row = b.d.bits->before.data() + (b.d.bits->rowp(j) - b.d.bits->buf.p);
        uint32_t dold = raw_get(old_row, 32, i);
        return rc8::combine(sc.op, fetched, ma << 24, 1, dold);
      };
      uint32_t want = final_px(ref.sample(p.x, p.y));
      bool ok = got == want;
      uint32_t want2 = want;
      if (!ok && p.has2) {
        // the documentation does not fix the rounding of the projective quotient: any of the four combinations
        for (int k = 1; k < 4 && !ok; k++) {
          want2 = final_px(ref.sample(k & 1 ? p.x2 : p.x, k & 2 ? p.y2 : p.y));
          ok = got == want2;
        }
      }
      if (!ok) {
        const char *known = nullptr;
        v.fail(fmt("dest (%d,%d): source position (%lld,%lld)/65536 filter %d repeat %d source %dx%d %s: fetched %08x, reference %08x%s", i, j, (long long)p.x, (long long)p.y, s.filter, s.repeat,
                   s.bits.w, s.bits.h, FORMATS[s.bits.fmt].name, got, want, affine ? "" : " (projective)"));
        if (!affine && (p.x < 0 || p.y < 0 || projective_w_nonpos)) known = "S2";
        v.known = known;
      }
      distinct_src.insert(ref.sample(p.x, p.y));
      int64_t fx = p.x & 0xffff, fy = p.y & 0xffff;
      if (fx <= 2 || fx >= 65534 || fy <= 2 || fy >= 65534 || std::llabs(fx - 32768) <= 2 || std::llabs(fy - 32768) <= 2) near_boundary = true;
      if (p.x < 0 || p.y < 0 || p.x >= ((int64_t)s.bits.w << 16) || p.y >= ((int64_t)s.bits.h << 16)) outside = true;
    }
  bool int_translate = affine && m[0] == 65536 && m[4] == 65536 && m[1] == 0 && m[3] == 0 && (m[2] & 0xffff) == 0 && (m[5] & 0xffff) == 0;
  v.nontrivial = !int_translate && distinct_src.size() >= 2 && ((s.repeat != 0 && outside) || near_boundary || !affine);
  v.label(fmt("filter%d", s.filter));
  v.label(fmt("repeat%d", s.repeat));
  if (!affine) v.label("projective");
  if (m[8] < 0 && projective_w_nonpos) v.label("w_negative_everywhere");
  if (sc.has_mask) v.label(sc.op == PIXMAN_OP_OVER ? "a8_mask_over" : "a8_mask_src");
  if (s.bits.w >= 20000) v.label("very_wide_source");
  if (s.has_alpha_map) v.label("source_alpha_map");
  if (sc.dst.bits.code() == PIXMAN_rgba_float) v.label("float_pipeline");
  if (near_boundary) v.label("sample_on_pixel_boundary");
  if (outside) v.label("samples_outside_source");
  return v;
}

static void register_props() { add_prop<SCase>("sampling", gen_case, run_case); }
VF_MAIN()
