// Independent region model (DESIGN.md §2 ref_region): a region is a list of
// 64-bit boxes in canonical y-x banded form, built strip by strip with interval
// arithmetic.  Written from the statement of C05/C06, not from pixman-region.c.
#pragma once
#include <cstdint>
#include <vector>
#include <algorithm>
#include <string>

namespace rr {

struct Box {
  int64_t x1 = 0, y1 = 0, x2 = 0, y2 = 0;
  template <class A> void io(A &a) {
    a.f("x1", x1);
    a.f("y1", y1);
    a.f("x2", x2);
    a.f("y2", y2);
  }
  bool operator==(const Box &o) const { return x1 == o.x1 && y1 == o.y1 && x2 == o.x2 && y2 == o.y2; }
  bool operator!=(const Box &o) const { return !(*this == o); }
  bool good() const { return x1 < x2 && y1 < y2; }
};
typedef std::vector<Box> Boxes;
typedef std::vector<std::pair<int64_t, int64_t>> Ivs;  // sorted disjoint non-touching [a,b)

inline Ivs norm(Ivs v) {
  std::sort(v.begin(), v.end());
  Ivs o;
  for (auto &i : v) {
    if (i.first >= i.second) continue;
    if (!o.empty() && i.first <= o.back().second)
      o.back().second = std::max(o.back().second, i.second);
    else
      o.push_back(i);
  }
  return o;
}
inline Ivs iv_union(const Ivs &a, const Ivs &b) {
  Ivs v = a;
  v.insert(v.end(), b.begin(), b.end());
  return norm(v);
}
inline Ivs iv_inter(const Ivs &a, const Ivs &b) {
  Ivs o;
  size_t i = 0, j = 0;
  while (i < a.size() && j < b.size()) {
    int64_t lo = std::max(a[i].first, b[j].first), hi = std::min(a[i].second, b[j].second);
    if (lo < hi) o.push_back({lo, hi});
    if (a[i].second < b[j].second) i++;
    else j++;
  }
  return o;
}
inline Ivs iv_sub(const Ivs &a, const Ivs &b) {
  Ivs o;
  for (auto iv : a) {
    int64_t cur = iv.first;
    for (auto &s : b) {
      if (s.second <= cur) continue;
      if (s.first >= iv.second) break;
      if (s.first > cur) o.push_back({cur, s.first});
      cur = std::max(cur, s.second);
      if (cur >= iv.second) break;
    }
    if (cur < iv.second) o.push_back({cur, iv.second});
  }
  return o;
}

enum Op { UNION, INTER, SUB };

// x-intervals of the boxes of `r` (arbitrary, possibly overlapping, degenerate
// ones ignored) that cover the horizontal strip [ya,yb)
inline Ivs strip(const Boxes &r, int64_t ya, int64_t yb) {
  Ivs v;
  for (auto &b : r)
    if (b.good() && b.y1 <= ya && b.y2 >= yb) v.push_back({b.x1, b.x2});
  return norm(v);
}

// combine two arbitrary box lists; result in canonical banded form
inline Boxes combine(const Boxes &a, const Boxes &b, Op op) {
  std::vector<int64_t> ys;
  for (auto *r : {&a, &b})
    for (auto &x : *r)
      if (x.good()) ys.push_back(x.y1), ys.push_back(x.y2);
  std::sort(ys.begin(), ys.end());
  ys.erase(std::unique(ys.begin(), ys.end()), ys.end());
  struct Band {
    int64_t y1, y2;
    Ivs iv;
  };
  std::vector<Band> bands;
  for (size_t j = 0; j + 1 < ys.size(); j++) {
    Ivs ia = strip(a, ys[j], ys[j + 1]), ib = strip(b, ys[j], ys[j + 1]);
    Ivs r = op == UNION ? iv_union(ia, ib) : op == INTER ? iv_inter(ia, ib) : iv_sub(ia, ib);
    if (r.empty()) continue;
    if (!bands.empty() && bands.back().y2 == ys[j] && bands.back().iv == r)
      bands.back().y2 = ys[j + 1];
    else
      bands.push_back({ys[j], ys[j + 1], r});
  }
  Boxes out;
  for (auto &bd : bands)
    for (auto &iv : bd.iv) out.push_back({iv.first, bd.y1, iv.second, bd.y2});
  return out;
}
inline Boxes canon(const Boxes &a) { return combine(a, Boxes(), UNION); }

inline Box extents(const Boxes &c) {  // of a canonical list
  Box e;
  if (c.empty()) return e;
  e = c[0];
  for (auto &b : c) {
    e.x1 = std::min(e.x1, b.x1);
    e.y1 = std::min(e.y1, b.y1);
    e.x2 = std::max(e.x2, b.x2);
    e.y2 = std::max(e.y2, b.y2);
  }
  return e;
}
inline bool contains(const Boxes &c, int64_t x, int64_t y) {
  for (auto &b : c)
    if (x >= b.x1 && x < b.x2 && y >= b.y1 && y < b.y2) return true;
  return false;
}
inline Boxes translate_clip(const Boxes &c, int64_t dx, int64_t dy, int64_t mn, int64_t mx) {
  Boxes t;
  for (auto b : c) {
    b.x1 = std::max(b.x1 + dx, mn);
    b.y1 = std::max(b.y1 + dy, mn);
    b.x2 = std::min(b.x2 + dx, mx);
    b.y2 = std::min(b.y2 + dy, mx);
    if (b.good()) t.push_back(b);
  }
  return canon(t);
}

// Canonical-form predicate, written from the statement of C06.  Returns ""
// when the list is canonical, else a description of the first defect.
inline std::string canonical_defect(const Boxes &r) {
  for (size_t i = 0; i < r.size(); i++) {
    if (!r[i].good()) return "empty/inverted rectangle #" + std::to_string(i);
  }
  // split into bands
  size_t i = 0;
  size_t prev_s = 0, prev_e = 0;
  bool have_prev = false;
  while (i < r.size()) {
    size_t s = i;
    while (i < r.size() && r[i].y1 == r[s].y1) {
      if (r[i].y2 != r[s].y2) return "rectangles of one band differ in y2 at #" + std::to_string(i);
      if (i > s && r[i].x1 <= r[i - 1].x2) return "rectangles of a band not separated by a gap / not x-sorted at #" + std::to_string(i);
      i++;
    }
    if (have_prev) {
      if (r[s].y1 < r[prev_s].y2) return "bands overlap or are not y-sorted at #" + std::to_string(s);
      if (r[s].y1 == r[prev_s].y2 && (i - s) == (prev_e - prev_s)) {
        bool same = true;
        for (size_t k = 0; k < i - s; k++)
          if (r[s + k].x1 != r[prev_s + k].x1 || r[s + k].x2 != r[prev_s + k].x2) same = false;
        if (same) return "vertically adjacent bands with identical spans not merged at #" + std::to_string(s);
      }
    }
    prev_s = s;
    prev_e = i;
    have_prev = true;
  }
  return "";
}

}  // namespace rr
