// Pixel formats, an independent codec (ref_codec), exactly-sized guarded buffers and image construction helpers.
// Everything here is written from the PIXMAN_FORMAT bit fields and the statement of C10, not from pixman-access.c.
#pragma once
#include "vf.hpp"
#include <cmath>
#include <memory>
#if defined(__has_feature)
#if __has_feature(address_sanitizer)
#include <sanitizer/asan_interface.h>
#endif
#endif
extern "C" {
#include <pixman.h>
}

namespace img {
using vf::Mix;

struct Fmt {
  pixman_format_code_t code;
  const char *name;
  bool dst_ok;  // usable as destination
};
#define F_(n, d) {PIXMAN_##n, #n, d}
static const Fmt FORMATS[] = {
    F_(a8r8g8b8, 1), F_(x8r8g8b8, 1), F_(a8b8g8r8, 1), F_(x8b8g8r8, 1), F_(b8g8r8a8, 1), F_(b8g8r8x8, 1), F_(r8g8b8a8, 1), F_(r8g8b8x8, 1),
    F_(x14r6g6b6, 1), F_(x2r10g10b10, 1), F_(a2r10g10b10, 1), F_(x2b10g10r10, 1), F_(a2b10g10r10, 1), F_(a8r8g8b8_sRGB, 1),
    F_(r8g8b8, 1), F_(b8g8r8, 1),
    F_(r5g6b5, 1), F_(b5g6r5, 1), F_(a1r5g5b5, 1), F_(x1r5g5b5, 1), F_(a1b5g5r5, 1), F_(x1b5g5r5, 1), F_(a4r4g4b4, 1), F_(x4r4g4b4, 1), F_(a4b4g4r4, 1), F_(x4b4g4r4, 1),
    F_(a8, 1), F_(r3g3b2, 1), F_(b2g3r3, 1), F_(a2r2g2b2, 1), F_(a2b2g2r2, 1), F_(c8, 1), F_(g8, 1), F_(x4a4, 1),
    F_(a4, 1), F_(r1g2b1, 1), F_(b1g2r1, 1), F_(a1r1g1b1, 1), F_(a1b1g1r1, 1), F_(c4, 1), F_(g4, 1),
    F_(a1, 1), F_(g1, 1),
    F_(yuy2, 0), F_(yv12, 0),
    F_(rgba_float, 1), F_(rgb_float, 1),
};
static const int NFORMATS = sizeof(FORMATS) / sizeof(FORMATS[0]);
inline int fmt_index(pixman_format_code_t c) {
  for (int i = 0; i < NFORMATS; i++)
    if (FORMATS[i].code == c) return i;
  return -1;
}
inline int bpp(pixman_format_code_t f) { return PIXMAN_FORMAT_BPP(f); }
inline int ftype(pixman_format_code_t f) { return PIXMAN_FORMAT_TYPE(f); }
inline bool is_float(pixman_format_code_t f) { return ftype(f) == PIXMAN_TYPE_RGBA_FLOAT; }
inline bool is_srgb(pixman_format_code_t f) { return ftype(f) == PIXMAN_TYPE_ARGB_SRGB; }
inline bool is_yuv(pixman_format_code_t f) { return ftype(f) == PIXMAN_TYPE_YUY2 || ftype(f) == PIXMAN_TYPE_YV12; }
inline bool is_indexed(pixman_format_code_t f) { return ftype(f) == PIXMAN_TYPE_COLOR || ftype(f) == PIXMAN_TYPE_GRAY; }
inline int abits(pixman_format_code_t f) { return PIXMAN_FORMAT_A(f); }
inline int rbits(pixman_format_code_t f) { return PIXMAN_FORMAT_R(f); }
inline int gbits(pixman_format_code_t f) { return PIXMAN_FORMAT_G(f); }
inline int bbits(pixman_format_code_t f) { return PIXMAN_FORMAT_B(f); }
// "narrow" = evaluated in the 8-bit pipeline: at most 8 bits per channel, not sRGB, not float
inline bool is_narrow(pixman_format_code_t f) {
  if (is_float(f) || is_srgb(f)) return false;
  if (is_yuv(f) || is_indexed(f)) return true;
  return abits(f) <= 8 && rbits(f) <= 8 && gbits(f) <= 8 && bbits(f) <= 8;
}
inline bool has_alpha(pixman_format_code_t f) { return abits(f) > 0; }
inline bool has_rgb(pixman_format_code_t f) { return is_yuv(f) || is_indexed(f) ? ftype(f) != PIXMAN_TYPE_A : (rbits(f) + gbits(f) + bbits(f)) > 0; }
inline bool packed_rgb(pixman_format_code_t f) {
  int t = ftype(f);
  return t == PIXMAN_TYPE_ARGB || t == PIXMAN_TYPE_ABGR || t == PIXMAN_TYPE_BGRA || t == PIXMAN_TYPE_RGBA || t == PIXMAN_TYPE_A || t == PIXMAN_TYPE_ARGB_SRGB;
}

// bit position of each channel inside the pixel value (from the type's definition)
struct Shifts {
  int a, r, g, b;
};
inline Shifts shifts(pixman_format_code_t f) {
  Shifts s{0, 0, 0, 0};
  int A = abits(f), Rr = rbits(f), G = gbits(f), B = bbits(f), BPP = bpp(f);
  switch (ftype(f)) {
  case PIXMAN_TYPE_ARGB:
  case PIXMAN_TYPE_ARGB_SRGB:
    s.b = 0;
    s.g = B;
    s.r = B + G;
    s.a = B + G + Rr;
    break;
  case PIXMAN_TYPE_ABGR:
    s.r = 0;
    s.g = Rr;
    s.b = Rr + G;
    s.a = Rr + G + B;
    break;
  case PIXMAN_TYPE_BGRA:  // B in the most significant bits, then G, R, and A (or padding) in the least significant
    s.b = BPP - B;
    s.g = s.b - G;
    s.r = s.g - Rr;
    s.a = s.r - A;
    break;
  case PIXMAN_TYPE_RGBA:
    s.r = BPP - Rr;
    s.g = s.r - G;
    s.b = s.g - B;
    s.a = s.b - A;
    break;
  default: break;  // TYPE_A: alpha at bit 0
  }
  return s;
}

// ---------------------------------------------------------------- raw pixel access (little-endian host)
inline uint32_t raw_get(const uint8_t *row, int BPP, int x) {
  switch (BPP) {
  case 1: return (row[x >> 3] >> (x & 7)) & 1;
  case 4: return (x & 1) ? (row[x >> 1] >> 4) : (row[x >> 1] & 0xf);
  case 8: return row[x];
  case 16: return row[2 * x] | (row[2 * x + 1] << 8);
  case 24: return row[3 * x] | (row[3 * x + 1] << 8) | (row[3 * x + 2] << 16);
  case 32: return row[4 * x] | (row[4 * x + 1] << 8) | (row[4 * x + 2] << 16) | ((uint32_t)row[4 * x + 3] << 24);
  }
  return 0;
}
inline void raw_put(uint8_t *row, int BPP, int x, uint32_t v) {
  switch (BPP) {
  case 1:
    if (v & 1) row[x >> 3] |= (uint8_t)(1 << (x & 7));
    else row[x >> 3] &= (uint8_t) ~(1 << (x & 7));
    break;
  case 4:
    if (x & 1) row[x >> 1] = (uint8_t)((row[x >> 1] & 0x0f) | ((v & 0xf) << 4));
    else row[x >> 1] = (uint8_t)((row[x >> 1] & 0xf0) | (v & 0xf));
    break;
  case 8: row[x] = (uint8_t)v; break;
  case 16:
    row[2 * x] = (uint8_t)v;
    row[2 * x + 1] = (uint8_t)(v >> 8);
    break;
  case 24:
    row[3 * x] = (uint8_t)v;
    row[3 * x + 1] = (uint8_t)(v >> 8);
    row[3 * x + 2] = (uint8_t)(v >> 16);
    break;
  case 32:
    row[4 * x] = (uint8_t)v;
    row[4 * x + 1] = (uint8_t)(v >> 8);
    row[4 * x + 2] = (uint8_t)(v >> 16);
    row[4 * x + 3] = (uint8_t)(v >> 24);
    break;
  }
}
inline int row_bytes(pixman_format_code_t f, int w) { return (w * bpp(f) + 7) / 8; }
inline int min_stride(pixman_format_code_t f, int w) {
  if (ftype(f) == PIXMAN_TYPE_YV12) return ((w + 7) / 8) * 8;  // one byte of Y per pixel; an even number of words so that stride/2 is whole
  return ((w * bpp(f) + 31) / 32) * 4;
}

// ---------------------------------------------------------------- codec
struct Ch {
  uint32_t a, r, g, b;
};  // channel values in the format's own depth
inline uint32_t fieldmask(int bits) { return bits >= 32 ? 0xffffffffu : ((1u << bits) - 1); }
inline Ch unpack(pixman_format_code_t f, uint32_t px) {
  Shifts s = shifts(f);
  Ch c;
  c.a = abits(f) ? (px >> s.a) & fieldmask(abits(f)) : 0;
  c.r = rbits(f) ? (px >> s.r) & fieldmask(rbits(f)) : 0;
  c.g = gbits(f) ? (px >> s.g) & fieldmask(gbits(f)) : 0;
  c.b = bbits(f) ? (px >> s.b) & fieldmask(bbits(f)) : 0;
  return c;
}
inline uint32_t pack(pixman_format_code_t f, Ch c) {
  Shifts s = shifts(f);
  uint32_t px = 0;
  if (abits(f)) px |= (c.a & fieldmask(abits(f))) << s.a;
  if (rbits(f)) px |= (c.r & fieldmask(rbits(f))) << s.r;
  if (gbits(f)) px |= (c.g & fieldmask(gbits(f))) << s.g;
  if (bbits(f)) px |= (c.b & fieldmask(bbits(f))) << s.b;
  return px;
}
// mask of the bits of a pixel value that carry channels (others are padding: undefined)
inline uint32_t defined_mask(pixman_format_code_t f) {
  if (is_indexed(f) || is_yuv(f)) return fieldmask(bpp(f));
  Ch ones{0xffffffffu, 0xffffffffu, 0xffffffffu, 0xffffffffu};
  return pack(f, ones);
}
// widen an n-bit value to 8 bits by bit replication
inline uint32_t widen8(uint32_t v, int bits) {
  if (bits == 0) return 0;
  if (bits >= 8) return v >> (bits - 8);
  uint32_t r = v << (8 - bits);
  int have = bits;
  while (have < 8) {
    r |= r >> have;
    have *= 2;
  }
  return r & 0xff;
}
// narrow an 8-bit value to n bits by truncation (keep the most significant bits)
inline uint32_t narrow8(uint32_t v, int bits) {
  if (bits == 0) return 0;
  if (bits >= 8) return v;
  return v >> (8 - bits);
}
// a8r8g8b8 value a packed-RGB pixel decodes to (absent alpha -> 0xff, absent colour -> 0)
inline uint32_t decode8888(pixman_format_code_t f, uint32_t px) {
  Ch c = unpack(f, px);
  uint32_t a = abits(f) ? widen8(c.a, abits(f)) : 0xff;
  uint32_t r = widen8(c.r, rbits(f)), g = widen8(c.g, gbits(f)), b = widen8(c.b, bbits(f));
  return (a << 24) | (r << 16) | (g << 8) | b;
}
inline uint32_t encode8888(pixman_format_code_t f, uint32_t argb) {
  Ch c;
  c.a = narrow8(argb >> 24, std::min(8, abits(f)));
  c.r = narrow8((argb >> 16) & 0xff, std::min(8, rbits(f)));
  c.g = narrow8((argb >> 8) & 0xff, std::min(8, gbits(f)));
  c.b = narrow8(argb & 0xff, std::min(8, bbits(f)));
  return pack(f, c);
}
// real value (0..1) of each channel, exact
struct ColF {
  long double a, r, g, b;
};
inline long double srgb_to_linear(long double v) { return v <= 0.04045L ? v / 12.92L : powl((v + 0.055L) / 1.055L, 2.4L); }
inline long double linear_to_srgb(long double v) { return v <= 0.0031308L ? v * 12.92L : 1.055L * powl(v, 1.0L / 2.4L) - 0.055L; }
inline ColF decode_real(pixman_format_code_t f, uint32_t px) {
  Ch c = unpack(f, px);
  ColF o;
  auto nrm = [](uint32_t v, int bits) -> long double { return bits ? (long double)v / (long double)fieldmask(bits) : 0.0L; };
  o.a = abits(f) ? nrm(c.a, abits(f)) : 1.0L;
  o.r = nrm(c.r, rbits(f));
  o.g = nrm(c.g, gbits(f));
  o.b = nrm(c.b, bbits(f));
  if (is_srgb(f)) {
    o.r = srgb_to_linear(o.r);
    o.g = srgb_to_linear(o.g);
    o.b = srgb_to_linear(o.b);
  }
  return o;
}

// ---------------------------------------------------------------- exactly-sized, optionally fenced buffers
struct Buf {
  uint8_t *p = nullptr;  // first byte handed to pixman's storage
  size_t size = 0;
  uint8_t *map = nullptr;
  size_t maplen = 0;
  uint8_t *mal = nullptr;
  Buf() {}
  Buf(const Buf &) = delete;
  Buf &operator=(const Buf &) = delete;
  // mode 0: malloc of exactly `size` bytes (ASan red zones); 1: end of buffer flush against a PROT_NONE page;
  // 2: start of buffer right after a PROT_NONE page
  void alloc(size_t n, int mode, int al = 0) {
    release();
    size = n;
    if (n == 0) n = 4;
    if (mode == 0) {
      // exact size, at a chosen address modulo 64 so that a case replays with the same alignment
      al &= 60;
      size_t tot = ((n + (size_t)al + 63) / 64) * 64;
      mal = (uint8_t *)aligned_alloc(64, tot);
      p = mal + al;
#if defined(__has_feature)
#if __has_feature(address_sanitizer)
      __asan_poison_memory_region(mal, (size_t)al);
      __asan_poison_memory_region(p + n, tot - (size_t)al - n);
#endif
#endif
      return;
    }
    size_t pg = 4096, body = (n + pg - 1) / pg * pg;
    maplen = body + 2 * pg;
    map = (uint8_t *)mmap(nullptr, maplen, PROT_READ | PROT_WRITE, MAP_PRIVATE | MAP_ANONYMOUS, -1, 0);
    if (map == MAP_FAILED) {
      map = nullptr;
      mal = (uint8_t *)malloc(n);
      p = mal;
      return;
    }
    mprotect(map, pg, PROT_NONE);
    mprotect(map + pg + body, pg, PROT_NONE);
    if (mode == 1) p = map + pg + body - ((n + 3) & ~(size_t)3);  // 4-byte aligned, ends (within 3 bytes) at the fence
    else p = map + pg;
  }
  void release() {
#if defined(__has_feature)
#if __has_feature(address_sanitizer)
    if (mal) __asan_unpoison_memory_region(mal, ((size + (size_t)(p - mal) + 63) / 64) * 64);
#endif
#endif
    if (mal) free(mal);
    if (map) munmap(map, maplen);
    mal = map = p = nullptr;
    size = 0;
  }
  ~Buf() { release(); }
};

// description of one bits image's storage and content
struct Bits {
  int fmt = 0;  // index into FORMATS
  int w = 1, h = 1;
  int pad = 0;        // extra 32-bit words per row
  int neg = 0;        // negative stride
  int fence = 0;      // Buf mode
  int fill = 0;       // fill mode
  uint64_t seed = 0;  // content
  int al = 0;         // malloc mode: address of the first byte modulo 64 (vector / cache-line tiling code depends on it)
  template <class A> void io(A &a) {
    a.f("fmt", fmt);
    a.f("w", w);
    a.f("h", h);
    a.f("pad", pad);
    a.f("neg", neg);
    a.f("fence", fence);
    a.f("fill", fill);
    a.f("seed", seed);
    a.f("al", al);
  }
  pixman_format_code_t code() const { return FORMATS[fmt].code; }
  int stride() const {  // magnitude, bytes (rgba_float rows must be a multiple of 16 bytes: documented precondition of create_bits)
    int unit = bpp(code()) == 128 ? 16 : 4;
    return min_stride(code(), w) + unit * pad;
  }
  size_t bytes() const {
    if (ftype(code()) == PIXMAN_TYPE_YV12) return (size_t)stride() * h * 2 + 64;  // Y plane + two half-size chroma planes (rounded up generously)
    return (size_t)stride() * h;
  }
};

// FILL_RUNS: runs (1-12 pixels) of all-zero, all-one and edge-valued pixels, like the masks of rendered text: SIMD loops that
// skip groups of zero / opaque pixels take their shortcuts and leave them again within one scanline
enum Fill { FILL_RANDOM, FILL_EDGE, FILL_OPAQUE, FILL_PREMUL, FILL_CONST, FILL_ZERO, FILL_ONES, FILL_RUNS, FILL_NFILL };

// pixel value generator for a format
inline uint32_t gen_px(pixman_format_code_t f, int fill, Mix &mx, uint32_t constant) {
  int BPP = bpp(f);
  uint32_t all = fieldmask(BPP);
  if (fill == FILL_ZERO) return 0;
  if (fill == FILL_ONES) return all;
  if (fill == FILL_CONST) return constant & all;
  if (!packed_rgb(f)) return mx.u32() & all;
  Ch c;
  auto chan = [&](int bits) -> uint32_t {
    if (!bits) return 0;
    uint32_t m = fieldmask(bits);
    if (fill == FILL_RANDOM) return mx.u32() & m;
    switch (mx.range(0, 7)) {
    case 0: return 0;
    case 1: return m;
    case 2: return 1 & m;
    case 3: return m - 1;
    case 4: return m >> 1;
    case 5: return (m >> 1) + 1;
    default: return mx.u32() & m;
    }
  };
  c.a = chan(abits(f));
  c.r = chan(rbits(f));
  c.g = chan(gbits(f));
  c.b = chan(bbits(f));
  if (fill == FILL_OPAQUE) c.a = fieldmask(abits(f));
  if (fill == FILL_PREMUL && abits(f)) {
    if (mx.range(0, 3) == 0) c.a = mx.range(0, 1) ? fieldmask(abits(f)) : 0;
    long double a = (long double)c.a / fieldmask(abits(f));
    auto lim = [&](uint32_t v, int bits) -> uint32_t {
      if (!bits) return 0;
      uint32_t mxv = (uint32_t)floorl(a * fieldmask(bits));
      return std::min(v, mxv);
    };
    c.r = lim(c.r, rbits(f));
    c.g = lim(c.g, gbits(f));
    c.b = lim(c.b, bbits(f));
  }
  uint32_t px = pack(f, c);
  // padding bits get garbage: they are undefined for readers
  px |= mx.u32() & all & ~defined_mask(f);
  return px;
}

// A bits image living in an exactly sized buffer, plus the pixman object
struct Image {
  Bits d;
  Buf buf;
  uint8_t *row0 = nullptr;  // address of row 0
  int stride = 0;           // signed, bytes
  pixman_image_t *im = nullptr;
  std::unique_ptr<pixman_indexed_t> pal;
  std::vector<uint8_t> before;  // snapshot of the whole storage
  uint8_t *rowp(int y) const { return row0 + (ptrdiff_t)stride * y; }
  void snapshot() { before.assign(buf.p, buf.p + buf.size); }
  ~Image() {
    if (im) pixman_image_unref(im);
  }
};

// A *consistent* palette (what every real caller supplies): reading index i gives rgba[i], and storing rgba[i] gives i
// back, i.e. ent[key(rgba[i])] == i with distinct keys (15-bit RGB for colour palettes, 15-bit luminance for grey ones).
// Entries of ent[] that no palette colour maps to hold arbitrary valid indices.
inline void make_palette(pixman_indexed_t *pal, pixman_format_code_t f, uint64_t seed) {
  Mix mx(seed ^ 0x5151);
  memset(pal, 0, sizeof *pal);
  pal->color = ftype(f) == PIXMAN_TYPE_COLOR;
  int n = 1 << bpp(f);
  if (n > 256) n = 256;
  for (int i = 0; i < 32768; i++) pal->ent[i] = (uint8_t)(mx.u32() % n);
  std::vector<char> used(32768, 0);
  for (int i = 0; i < 256; i++) {
    uint32_t v, key;
    for (;;) {
      if (ftype(f) == PIXMAN_TYPE_GRAY) {
        uint32_t g = mx.u32() & 0xff;
        v = 0xff000000 | (g << 16) | (g << 8) | g;
        key = (g * 153 + g * 301 + g * 58) >> 2;
      } else {
        v = mx.u32() | 0xff000000;
        key = (((v >> 16) & 0xff) >> 3) << 10 | (((v >> 8) & 0xff) >> 3) << 5 | ((v & 0xff) >> 3);
      }
      if (i >= n || !used[key]) break;  // entries beyond the format's index range are never read
    }
    pal->rgba[i] = v;
    if (i < n) {
      used[key] = 1;
      pal->ent[key] = (uint8_t)i;
    }
  }
}

// fill storage according to d.fill/d.seed and create the pixman image on it
inline std::unique_ptr<Image> make_image(const Bits &d) {
  std::unique_ptr<Image> I(new Image());
  I->d = d;
  pixman_format_code_t f = d.code();
  size_t n = d.bytes();
  I->buf.alloc(n, d.fence, d.al);
  int st = d.stride();
  Mix mx(d.seed);
  // every byte gets garbage first (row padding is not pixel data)
  for (size_t i = 0; i < n; i++) I->buf.p[i] = (uint8_t)mx.u32();
  bool yv12 = ftype(f) == PIXMAN_TYPE_YV12;
  if (d.neg && !yv12) {
    I->row0 = I->buf.p + (size_t)st * (d.h - 1);
    I->stride = -st;
  } else {
    I->row0 = I->buf.p;
    I->stride = st;
  }
  if (is_float(f)) {
    int nc = bpp(f) / 32;
    for (int y = 0; y < d.h; y++) {
      float *row = (float *)I->rowp(y);
      for (int x = 0; x < d.w * nc; x++) {
        float v;
        switch (d.fill) {
        case FILL_ZERO: v = 0; break;
        case FILL_ONES:
        case FILL_OPAQUE: v = (nc == 4 && (x % nc) == 3) || d.fill == FILL_ONES ? 1.0f : (float)mx.range(0, 255) / 255.0f; break;
        case FILL_CONST: v = (float)((d.seed >> (8 * (x % nc))) & 0xff) / 255.0f; break;
        default: v = mx.range(0, 3) ? (float)mx.range(0, 255) / 255.0f : (float)mx.range(0, 1023) / 1023.0f; break;
        }
        row[x] = v;
      }
      if (d.fill == FILL_PREMUL && nc == 4)
        for (int x = 0; x < d.w; x++)
          for (int k = 0; k < 3; k++) row[4 * x + k] = std::min(row[4 * x + k], row[4 * x + 3]);
    }
  } else if (!is_yuv(f)) {
    uint32_t constant = (uint32_t)(d.seed * 0x9E3779B97F4A7C15ULL >> 32);
    int run = 0, mode = FILL_EDGE;
    for (int y = 0; y < d.h; y++)
      for (int x = 0; x < d.w; x++) {
        int fill = d.fill;
        if (fill == FILL_RUNS) {
          if (run == 0) {
            run = mx.range(1, 12);
            mode = (int[]){FILL_ZERO, FILL_ZERO, FILL_ONES, FILL_ONES, FILL_EDGE, FILL_PREMUL}[mx.range(0, 5)];
          }
          run--;
          fill = mode;
        }
        raw_put(I->rowp(y), bpp(f), x, gen_px(f, fill, mx, constant));
      }
  }
  I->im = pixman_image_create_bits_no_clear(f, d.w, d.h, (uint32_t *)I->row0, I->stride);
  if (I->im && is_indexed(f)) {
    I->pal.reset(new pixman_indexed_t);
    make_palette(I->pal.get(), f, d.seed);
    pixman_image_set_indexed(I->im, I->pal.get());
  }
  I->snapshot();
  return I;
}

// generator for a Bits description
inline Bits gen_bits(int fmt, int maxw, int maxh) {
  using namespace vf;
  Bits b;
  b.fmt = fmt;
  b.w = (int)R(1, maxw);
  b.h = (int)R(1, maxh);
  b.pad = pickw({5, 2, 1});
  b.neg = coin(15);
  b.fence = pickw({6, 2, 1});
  b.fill = pickw({4, 4, 2, 3, 1, 1, 1, 2});
  b.seed = seed64();
  b.al = (int)R(0, 15) * 4;
  return b;
}

// a Bits description with fixed geometry and content seed (no random draws)
inline Bits gen_bits_fixed(int fmt, int w, int h, uint64_t seed) {
  Bits b;
  b.fmt = fmt;
  b.w = w;
  b.h = h;
  b.fill = FILL_PREMUL;
  b.seed = seed;
  return b;
}

inline std::string hex(uint32_t v) { return vf::fmt("%08x", v); }

}  // namespace img
