// A complete description of one drawing request (DESIGN.md §2 "Scene"): three image descriptions with all their
// properties, the operator and the geometry; builders that turn it into pixman objects on guarded buffers; generators.
#pragma once
#include "img.hpp"
#if defined(__has_feature)
#if __has_feature(address_sanitizer)
#include <sanitizer/common_interface_defs.h>
#endif
#endif
#include "ref_region.hpp"

namespace scene {
using namespace vf;
using namespace img;
using rr::Box;
using rr::Boxes;

struct Stop {
  int64_t x = 0;
  uint32_t color = 0;  // a8r8g8b8 (expanded to 16 bit by *257)
  template <class A> void io(A &a) {
    a.f("x", x);
    a.f("color", color);
  }
};

struct SImg {
  int kind = 0;  // 0 bits, 1 solid, 2 linear, 3 radial, 4 conical
  Bits bits;
  uint32_t color = 0;          // solid: a8r8g8b8
  std::vector<Stop> stops;     // gradients
  std::vector<int64_t> geom;   // gradient geometry (fixed): linear x1 y1 x2 y2; radial cx1 cy1 cx2 cy2 r1 r2; conical cx cy angle
  int has_transform = 0;
  std::vector<int64_t> m;      // 9 fixed
  int filter = 0;              // 0 nearest, 1 bilinear, 2 convolution, 3 separable convolution, 4 FAST, 5 GOOD, 6 BEST
  int kw = 1, kh = 1, kbx = 0, kby = 0;
  uint64_t kseed = 0;
  int kneg = 0;                // allow negative taps
  int ksum = 100;              // the kernel's coefficients sum to ksum/100 (1.0 for a normalised kernel)
  int repeat = 0;
  int has_clip = 0;
  Boxes clip;
  int client_clip = 0, source_clipping = 0;
  int has_alpha_map = 0;
  Bits amap;
  int ax = 0, ay = 0;
  int component_alpha = 0;
  int accessors = 0;
  int dither = 0;
  int dox = 0, doy = 0;        // dither offset
  int amap_has_clip = 0;       // the alpha map image carries a clip of its own (it clips the request when enabled for sources)
  Boxes amap_clip;
  int amap_client_clip = 0, amap_source_clipping = 0;
  template <class A> void io(A &a) {
    a.f("kind", kind);
    a.f("bits", bits);
    a.f("color", color);
    a.f("stops", stops);
    a.f("geom", geom);
    a.f("has_transform", has_transform);
    a.f("m", m);
    a.f("filter", filter);
    a.f("kw", kw);
    a.f("kh", kh);
    a.f("kbx", kbx);
    a.f("kby", kby);
    a.f("kseed", kseed);
    a.f("kneg", kneg);
    a.f("ksum", ksum);
    a.f("repeat", repeat);
    a.f("has_clip", has_clip);
    a.f("clip", clip);
    a.f("client_clip", client_clip);
    a.f("source_clipping", source_clipping);
    a.f("has_alpha_map", has_alpha_map);
    a.f("amap", amap);
    a.f("ax", ax);
    a.f("ay", ay);
    a.f("component_alpha", component_alpha);
    a.f("accessors", accessors);
    a.f("dither", dither);
    a.f("dox", dox);
    a.f("doy", doy);
    a.f("amap_has_clip", amap_has_clip);
    a.f("amap_clip", amap_clip);
    a.f("amap_client_clip", amap_client_clip);
    a.f("amap_source_clipping", amap_source_clipping);
  }
};

struct Scene {
  int op = PIXMAN_OP_SRC;
  int has_mask = 0;
  SImg src, mask, dst;
  int sx = 0, sy = 0, mx = 0, my = 0, dx = 0, dy = 0, w = 1, h = 1;
  int mask_is_src = 0;  // "pixbuf" aliasing: the mask is the same image object as the source
  int mask_shares_bits = 0;  // the mask is a second image object (its own format and properties) on the source's storage
  int twin_primer = 0;       // (C02) the request is preceded, on the same thread, by its twin with a plain untransformed mask
  template <class A> void io(A &a) {
    a.f("op", op);
    a.f("has_mask", has_mask);
    a.f("src", src);
    a.f("mask", mask);
    a.f("dst", dst);
    a.f("sx", sx);
    a.f("sy", sy);
    a.f("mx", mx);
    a.f("my", my);
    a.f("dx", dx);
    a.f("dy", dy);
    a.f("w", w);
    a.f("h", h);
    a.f("mask_is_src", mask_is_src);
    a.f("mask_shares_bits", mask_shares_bits);
    a.f("twin_primer", twin_primer);
  }
};

// ---------------------------------------------------------------- accessors (pass-through, logging out-of-storage accesses)
struct AccLog {
  const uint8_t *lo[32], *hi[32];
  int n = 0;
  long calls = 0, bad = 0;
};
inline AccLog &acclog() {
  static AccLog *l = new AccLog();
  return *l;
}
inline bool acc_ok(const void *p, int size) {
  AccLog &l = acclog();
  const uint8_t *q = (const uint8_t *)p;
  for (int i = 0; i < l.n; i++)
    if (q >= l.lo[i] && q + size <= l.hi[i]) return true;
#if defined(__has_feature)
#if __has_feature(address_sanitizer)
  if (getenv("VF_DEBUG") && getenv("VF_DEBUG")[0] == '2') __sanitizer_print_stack_trace();
#endif
#endif
  if (getenv("VF_DEBUG"))  // triage aid: where did the stray access go, relative to the registered storage ranges?
    for (int i = 0; i < l.n; i++) fprintf(stderr, "[acc] %d bytes at %p: %td bytes from the start, %td bytes from the end of range %d (%td bytes)\n", size, p, q - l.lo[i], q - l.hi[i], i, l.hi[i] - l.lo[i]);
  return false;
}
inline uint32_t acc_read(const void *src, int size) {
  AccLog &l = acclog();
  l.calls++;
  if (!acc_ok(src, size)) {
    l.bad++;
    return 0;
  }
  switch (size) {
  case 1: return *(const uint8_t *)src;
  case 2: return *(const uint16_t *)src;
  default: return *(const uint32_t *)src;
  }
}
inline void acc_write(void *dst, uint32_t v, int size) {
  AccLog &l = acclog();
  l.calls++;
  if (!acc_ok(dst, size)) {
    l.bad++;
    return;
  }
  switch (size) {
  case 1: *(uint8_t *)dst = (uint8_t)v; break;
  case 2: *(uint16_t *)dst = (uint16_t)v; break;
  default: *(uint32_t *)dst = v; break;
  }
}

// ---------------------------------------------------------------- building
struct BuiltImg {
  std::unique_ptr<Image> bits, amap;
  pixman_image_t *im = nullptr;  // borrowed from bits, or owned (solid/gradient)
  bool owned = false;
  std::vector<pixman_fixed_t> params;
  ~BuiltImg() {
    if (owned && im) pixman_image_unref(im);
  }
};

inline std::vector<pixman_fixed_t> make_kernel(const SImg &d) {
  std::vector<pixman_fixed_t> p;
  Mix mx(d.kseed);
  auto taps = [&](int n, std::vector<pixman_fixed_t> &out) {
    // n taps summing to exactly 65536
    std::vector<int64_t> t(n);
    int64_t sum = 0;
    for (int i = 0; i < n; i++) {
      t[i] = mx.range(d.kneg ? -30000 : 0, 60000);
      sum += t[i];
    }
    // keep the coefficients sane (|f| of a few units at most): the fetchers accumulate 8-bit pixel * 16.16 coefficient in
    // 32 bits, so kernels whose absolute sum exceeds 128.0 are outside what the implementation can represent
    while (sum < 40000) {
      t[n / 2] += 65536;
      sum += 65536;
    }
    int64_t acc = 0;
    for (int i = 0; i < n; i++) {
      t[i] = t[i] * 65536 / sum;
      acc += t[i];
    }
    t[n / 2] += 65536 - acc;
    // kernels need not be normalised (a blur whose table was rounded, a kernel that darkens): scale every tap so that the
    // sum becomes ksum/100; an image without alpha channel read through such a kernel is no longer opaque
    if (d.ksum > 0 && d.ksum != 100)
      for (int i = 0; i < n; i++) t[i] = t[i] * d.ksum / 100;
    for (int i = 0; i < n; i++) out.push_back((pixman_fixed_t)t[i]);
  };
  if (d.filter == 2) {
    p.push_back(d.kw << 16);
    p.push_back(d.kh << 16);
    taps(d.kw * d.kh, p);
  } else {
    p.push_back(d.kw << 16);
    p.push_back(d.kh << 16);
    p.push_back(d.kbx << 16);
    p.push_back(d.kby << 16);
    for (int ph = 0; ph < (1 << d.kbx); ph++) taps(d.kw, p);
    for (int ph = 0; ph < (1 << d.kby); ph++) taps(d.kh, p);
  }
  return p;
}

inline void apply_props(pixman_image_t *im, const SImg &d, BuiltImg &b, bool is_dest) {
  if (d.has_transform && d.m.size() == 9) {
    pixman_transform_t t;
    for (int i = 0; i < 9; i++) t.matrix[i / 3][i % 3] = (pixman_fixed_t)d.m[i];
    pixman_image_set_transform(im, &t);
  }
  switch (d.filter) {
  case 0: pixman_image_set_filter(im, PIXMAN_FILTER_NEAREST, nullptr, 0); break;
  case 1: pixman_image_set_filter(im, PIXMAN_FILTER_BILINEAR, nullptr, 0); break;
  case 2:
  case 3: {
    b.params = make_kernel(d);
    pixman_filter_t f = d.filter == 2 ? PIXMAN_FILTER_CONVOLUTION : PIXMAN_FILTER_SEPARABLE_CONVOLUTION;
    if (d.kseed & 2) {
      // half of the images had another kernel of the same shape before (same header and leading coefficients, different
      // tail): only the last setter call may count
      std::vector<pixman_fixed_t> decoy = b.params;
      decoy.back() += 0x2000;
      if (decoy.size() > 6) decoy[decoy.size() - 2] -= 0x1000;
      pixman_image_set_filter(im, f, decoy.data(), (int)decoy.size());
    }
    pixman_image_set_filter(im, f, b.params.data(), (int)b.params.size());
    break;
  }
  case 4: pixman_image_set_filter(im, PIXMAN_FILTER_FAST, nullptr, 0); break;
  case 5: pixman_image_set_filter(im, PIXMAN_FILTER_GOOD, nullptr, 0); break;
  default: pixman_image_set_filter(im, PIXMAN_FILTER_BEST, nullptr, 0); break;
  }
  pixman_image_set_repeat(im, (pixman_repeat_t)d.repeat);
  if (d.has_clip) {
    std::vector<pixman_box32_t> bx;
    for (auto &c : d.clip) bx.push_back({(int32_t)c.x1, (int32_t)c.y1, (int32_t)c.x2, (int32_t)c.y2});
    pixman_region32_t r;
    pixman_region32_init_rects(&r, bx.data(), (int)bx.size());
    pixman_image_set_clip_region32(im, &r);
    pixman_region32_fini(&r);
  }
  if (d.client_clip) pixman_image_set_has_client_clip(im, 1);
  if (d.source_clipping) pixman_image_set_source_clipping(im, 1);
  if (d.component_alpha) pixman_image_set_component_alpha(im, 1);
  if (d.dither && is_dest) {
    pixman_image_set_dither(im, (pixman_dither_t)d.dither);
    if (d.dox || d.doy) pixman_image_set_dither_offset(im, d.dox, d.doy);
  }
}

inline void build_img(const SImg &d, BuiltImg &b, bool is_dest) {
  if (d.kind == 0) {
    b.bits = make_image(d.bits);
    b.im = b.bits->im;
    if (!b.im) return;
    if (d.has_alpha_map) {
      b.amap = make_image(d.amap);
      if (b.amap->im) {
        if (d.amap_has_clip) {
          std::vector<pixman_box32_t> bx;
          for (auto &c : d.amap_clip) bx.push_back({(int32_t)c.x1, (int32_t)c.y1, (int32_t)c.x2, (int32_t)c.y2});
          pixman_region32_t r;
          pixman_region32_init_rects(&r, bx.data(), (int)bx.size());
          pixman_image_set_clip_region32(b.amap->im, &r);
          pixman_region32_fini(&r);
          if (d.amap_client_clip) pixman_image_set_has_client_clip(b.amap->im, 1);
          if (d.amap_source_clipping) pixman_image_set_source_clipping(b.amap->im, 1);
        }
        // half of the images first get the same map at another origin: only the last call may count
        if (d.amap.seed & 1) pixman_image_set_alpha_map(b.im, b.amap->im, (int16_t)(d.ax + 3), (int16_t)(d.ay - 2));
        pixman_image_set_alpha_map(b.im, b.amap->im, (int16_t)d.ax, (int16_t)d.ay);
      }
    }
    if (d.accessors && bpp(d.bits.code()) <= 32) {  // pixman_image_set_accessors documents: accessors only work for <= 32 bpp
      AccLog &l = acclog();
      if (l.n < 31) {
        l.lo[l.n] = b.bits->buf.p;
        l.hi[l.n] = b.bits->buf.p + b.bits->buf.size;
        l.n++;
      }
      pixman_image_set_accessors(b.im, acc_read, acc_write);
    }
  } else if (d.kind == 1) {
    uint32_t c = d.color;
    pixman_color_t col = {(uint16_t)(((c >> 16) & 0xff) * 257), (uint16_t)(((c >> 8) & 0xff) * 257), (uint16_t)((c & 0xff) * 257), (uint16_t)((c >> 24) * 257)};
    b.im = pixman_image_create_solid_fill(&col);
    b.owned = true;
  } else {
    std::vector<pixman_gradient_stop_t> st;
    for (auto &s : d.stops) {
      uint32_t c = s.color;
      pixman_gradient_stop_t g;
      g.x = (pixman_fixed_t)s.x;
      g.color = {(uint16_t)(((c >> 16) & 0xff) * 257), (uint16_t)(((c >> 8) & 0xff) * 257), (uint16_t)((c & 0xff) * 257), (uint16_t)((c >> 24) * 257)};
      st.push_back(g);
    }
    auto G = [&](size_t i) { return (pixman_fixed_t)(i < d.geom.size() ? d.geom[i] : 0); };
    if (d.kind == 2) {
      pixman_point_fixed_t p1 = {G(0), G(1)}, p2 = {G(2), G(3)};
      b.im = pixman_image_create_linear_gradient(&p1, &p2, st.data(), (int)st.size());
    } else if (d.kind == 3) {
      pixman_point_fixed_t p1 = {G(0), G(1)}, p2 = {G(2), G(3)};
      b.im = pixman_image_create_radial_gradient(&p1, &p2, G(4), G(5), st.data(), (int)st.size());
    } else {
      pixman_point_fixed_t c = {G(0), G(1)};
      b.im = pixman_image_create_conical_gradient(&c, G(2), st.data(), (int)st.size());
    }
    b.owned = true;
  }
  if (b.im) apply_props(b.im, d, b, is_dest);
}

struct Built {
  BuiltImg s, m, d;
  bool ok = false;
  pixman_image_t *mask_im = nullptr;
};
inline void build(const Scene &sc, Built &b) {
  acclog().n = 0;
  acclog().calls = acclog().bad = 0;
  build_img(sc.src, b.s, false);
  if (sc.has_mask && sc.mask_shares_bits && !sc.mask_is_src && b.s.im && b.s.bits && bpp(sc.mask.bits.code()) == bpp(sc.src.bits.code())) {
    // GdkPixbuf-style data: the same pixels wrapped twice, once without and once with their alpha channel
    b.m.im = pixman_image_create_bits(sc.mask.bits.code(), sc.src.bits.w, sc.src.bits.h, pixman_image_get_data(b.s.im), pixman_image_get_stride(b.s.im));
    b.m.owned = true;
    if (b.m.im) apply_props(b.m.im, sc.mask, b.m, false);
  } else if (sc.has_mask && !sc.mask_is_src)
    build_img(sc.mask, b.m, false);
  build_img(sc.dst, b.d, true);
  b.mask_im = sc.has_mask ? (sc.mask_is_src ? b.s.im : b.m.im) : nullptr;
  b.ok = b.s.im && b.d.im && (!sc.has_mask || b.mask_im);
}
inline void draw(const Scene &sc, Built &b) {
  pixman_image_composite32((pixman_op_t)sc.op, b.s.im, b.mask_im, b.d.im, sc.sx, sc.sy, sc.mx, sc.my, sc.dx, sc.dy, sc.w, sc.h);
}

// digest of a destination (and its alpha map): defined bits of every pixel + all padding bytes, as hex text
inline void digest_image(const Image &im, bool mask_alpha_bits, bool only_alpha_bits, std::string &out) {
  pixman_format_code_t f = im.d.code();
  int BPP = bpp(f);
  char buf[16];
  uint64_t h = 1469598103934665603ULL;
  auto feed = [&](uint32_t v) {
    for (int k = 0; k < 4; k++) {
      h = (h ^ ((v >> (8 * k)) & 0xff)) * 1099511628211ULL;
    }
  };
  if (is_float(f)) {
    for (int y = 0; y < im.d.h; y++) {
      const uint32_t *p = (const uint32_t *)im.rowp(y);
      // rgba_float keeps alpha in the fourth component: undefined under a destination alpha map, like the alpha bits
      // of the packed formats below
      int nc = BPP / 32;
      for (int x = 0; x < im.d.w * nc; x++) {
        bool is_alpha = nc == 4 && x % 4 == 3;
        if ((mask_alpha_bits && is_alpha) || (only_alpha_bits && !is_alpha)) continue;
        feed(p[x]);
      }
    }
  } else {
    uint32_t dm = defined_mask(f);
    if (packed_rgb(f)) {
      Ch a1{0xffffffffu, 0, 0, 0};
      uint32_t am = pack(f, a1);
      if (mask_alpha_bits) dm &= ~am;
      if (only_alpha_bits) dm &= am;
    }
    for (int y = 0; y < im.d.h; y++) {
      for (int x = 0; x < im.d.w; x++) feed(raw_get(im.rowp(y), BPP, x) & dm);
      // row padding must be untouched: include it verbatim
      int rb = row_bytes(f, im.d.w), st = im.d.stride();
      for (int b = rb; b < st; b++) feed(im.rowp(y)[b]);
    }
  }
  snprintf(buf, sizeof buf, "%016llx", (unsigned long long)h);
  out += buf;
}
inline std::string digest_dest(const Built &b) {
  std::string s;
  if (!b.d.bits) return s;
  digest_image(*b.d.bits, b.d.amap != nullptr, false, s);
  if (b.d.amap) {
    s += ":";
    digest_image(*b.d.amap, false, true, s);
  }
  return s;
}

// ---------------------------------------------------------------- generators
inline std::vector<int64_t> gen_transform(int kind, int sw, int sh) {
  // kind: 0 int translate, 1 fractional translate, 2 scale, 3 rot90 family, 4 affine, 5 projective
  std::vector<int64_t> m{65536, 0, 0, 0, 65536, 0, 0, 0, 65536};
  auto frac = [] { return coin(40) ? pick<int64_t>({0, 32768, 1, 65535, 16384, 49152}) : R(0, 65535); };
  switch (kind) {
  case 0:
    m[2] = R(-6, 6) * 65536;
    m[5] = R(-6, 6) * 65536;
    break;
  case 1:
    m[2] = R(-6, 6) * 65536 + frac();
    m[5] = R(-6, 6) * 65536 + frac();
    break;
  case 2: {
    auto sc = [] {
      int64_t v = coin(50) ? pick<int64_t>({32768, 131072, 65536, 98304, 43691, 21845, 196608, 65536}) : R(4096, 4 * 65536);
      return coin(15) ? -v : v;  // mirrored (and mirrored + scaled) sources
    };
    m[0] = sc();
    m[4] = coin(50) ? m[0] : sc();
    m[2] = R(-4, 4) * 65536 + frac();
    m[5] = R(-4, 4) * 65536 + frac();
    break;
  }
  case 3: {
    int r = (int)R(1, 3);
    // rotation about the origin with the translation that keeps the image in the first quadrant
    if (r == 1) m = {0, -65536, (int64_t)sh * 65536, 65536, 0, 0, 0, 0, 65536};
    else if (r == 2) m = {-65536, 0, (int64_t)sw * 65536, 0, -65536, (int64_t)sh * 65536, 0, 0, 65536};
    else m = {0, 65536, 0, -65536, 0, (int64_t)sw * 65536, 0, 0, 65536};
    if (coin(30)) {
      m[2] += R(-3, 3) * 65536;
      m[5] += R(-3, 3) * 65536;
    }
    if (coin(30)) {
      // translations by half a pixel (+- one unit): every sample position of the rotated grid lands on a pixel boundary,
      // where the whole-image rotation routines must round as the per-pixel rule does (seeded C02v)
      m[2] += pick<int64_t>({0, 32768, -32768, 32767, 32769, 1, -1});
      m[5] += pick<int64_t>({0, 32768, -32768, 32767, 32769, 1, -1});
    }
    break;
  }
  case 4:
    m[0] = R(-3 * 65536, 3 * 65536);
    m[1] = R(-3 * 65536, 3 * 65536);
    m[3] = R(-3 * 65536, 3 * 65536);
    m[4] = R(-3 * 65536, 3 * 65536);
    m[2] = R(-8, 8) * 65536 + frac();
    m[5] = R(-8, 8) * 65536 + frac();
    break;
  default:
    m[0] = R(-2 * 65536, 2 * 65536);
    m[1] = R(-65536, 65536);
    m[3] = R(-65536, 65536);
    m[4] = R(-2 * 65536, 2 * 65536);
    m[2] = R(-8, 8) * 65536 + frac();
    m[5] = R(-8, 8) * 65536 + frac();
    m[6] = R(-3000, 3000);
    m[7] = R(-3000, 3000);
    m[8] = coin(50) ? 65536 : R(20000, 200000);
    // homogeneous-but-affine shapes: w constant along a scanline (m20 == 0) or everywhere (m20 == m21 == 0) yet != 1;
    // code that tests "is this affine" by looking at only part of the last row lives here
    switch (pickw({6, 2, 2})) {
    case 1: m[6] = 0; break;
    case 2:
      m[6] = m[7] = 0;
      m[8] = pick<int64_t>({32768, 131072, 98304, 65537, 21845});
      break;
    default: break;
    }
    break;
  }
  return m;
}

inline Boxes gen_clip(int w, int h, int maxn) {
  int n = (int)R(1, maxn);
  Boxes b;
  if (coin(5)) return b;  // a clip region that is set but empty: nothing may be drawn (seeded C03d)
  for (int i = 0; i < n; i++) {
    int64_t x1 = R(-3, w), y1 = R(-3, h);
    b.push_back({x1, y1, x1 + R(1, w + 3), y1 + R(1, h + 3)});
  }
  return b;
}

// common source formats with mass on those that have specialised paths
inline int gen_src_format(bool any) {
  if (!any || coin(60))
    return fmt_index(pick<pixman_format_code_t>({PIXMAN_a8r8g8b8, PIXMAN_x8r8g8b8, PIXMAN_a8b8g8r8, PIXMAN_x8b8g8r8, PIXMAN_r5g6b5, PIXMAN_b5g6r5, PIXMAN_a8, PIXMAN_a1, PIXMAN_r8g8b8,
                                                 PIXMAN_b8g8r8a8, PIXMAN_b8g8r8x8, PIXMAN_a4, PIXMAN_x2r10g10b10, PIXMAN_a2r10g10b10, PIXMAN_r8g8b8a8, PIXMAN_r8g8b8x8, PIXMAN_a1r5g5b5}));
  return (int)R(0, NFORMATS - 1);
}
inline int gen_dst_format(bool any) {
  for (;;) {
    int f = gen_src_format(any);
    if (FORMATS[f].dst_ok) return f;
  }
}
static const int WIDTHS[] = {1, 2, 3, 4, 7, 8, 15, 16, 17, 31, 32, 33, 63, 64, 65};

struct GenOpts {
  bool any_format = true;
  bool transforms = true;
  bool gradients = false;
  bool clips = true;
  bool alpha_maps = true;
  bool convolution = true;
  bool wide_ops = true;   // operators beyond ADD
  bool accessors = true;
  int maxw = 80, maxh = 6;
};

inline SImg gen_source(const GenOpts &o, int need_w, int need_h, bool is_mask) {
  SImg s;
  int k = pickw({70, 15, o.gradients ? 15 : 0});
  if (k == 1) {
    s.kind = 1;
    s.color = u32();
    if (coin(30)) s.color |= 0xff000000;
    return s;
  }
  if (k == 2) {
    s.kind = 2;
    int n = (int)R(1, 4);
    int64_t x = 0;
    for (int i = 0; i < n; i++) {
      x = std::min<int64_t>(65536, x + R(0, 40000));
      s.stops.push_back(Stop{x, u32()});
    }
    s.geom = {R(-5, 20) * 65536, R(-5, 20) * 65536, R(-5, 40) * 65536, R(-5, 20) * 65536};
    s.repeat = (int)R(0, 3);
    return s;
  }
  s.kind = 0;
  int f = is_mask && coin(50) ? fmt_index(pick<pixman_format_code_t>({PIXMAN_a8, PIXMAN_a8r8g8b8, PIXMAN_a1, PIXMAN_a4})) : gen_src_format(o.any_format);
  s.bits = gen_bits(f, 1, 1);
  bool tiny = coin(12);
  s.bits.w = tiny ? 1 : std::max(1, need_w + (int)R(-3, 8));
  s.bits.h = tiny ? 1 : std::max(1, need_h + (int)R(-2, 4));
  if (is_yuv(s.bits.code())) {
    s.bits.w = (s.bits.w + 1) & ~1;
    s.bits.h = (s.bits.h + 1) & ~1;
    s.bits.neg = 0;
  }
  s.repeat = tiny ? (coin(80) ? 1 : (int)R(0, 3)) : pickw({5, 2, 2, 2});
  if (o.transforms && coin(45)) {
    s.has_transform = 1;
    s.m = gen_transform(pickw({2, 2, 3, 2, 2, 1}), s.bits.w, s.bits.h);
    s.filter = o.convolution ? pickw({5, 5, 1, 2, 1, 1, 1}) : pickw({5, 5, 0, 0, 1, 1, 1});
  } else if (coin(15))
    s.filter = pickw({2, 2, 0, 0, 1, 1, 1});
  if (s.filter == 2) {
    s.kw = (int)R(1, 4);
    s.kh = (int)R(1, 4);
  }
  if (s.filter == 3) {
    s.kw = (int)R(1, 5);
    s.kh = (int)R(1, 5);
    s.kbx = (int)R(0, 3);
    s.kby = (int)R(0, 3);
  }
  s.kseed = seed64();
  s.kneg = coin(40);
  if (coin(20)) s.ksum = (int)R(30, 130);
  if (o.clips && coin(12)) {
    s.has_clip = 1;
    s.clip = gen_clip(s.bits.w, s.bits.h, 3);
    s.client_clip = coin(70);
    s.source_clipping = coin(70);
  }
  if (o.alpha_maps && coin(6) && !is_yuv(s.bits.code())) {
    s.has_alpha_map = 1;
    s.amap = gen_bits(fmt_index(pick<pixman_format_code_t>({PIXMAN_a8, PIXMAN_a4, PIXMAN_a1, PIXMAN_a8r8g8b8})), 1, 1);
    s.amap.w = std::max(1, s.bits.w + (int)R(-3, 2));
    s.amap.h = std::max(1, s.bits.h + (int)R(-2, 1));
    s.ax = (int)R(-2, 3);
    s.ay = (int)R(-1, 2);
  }
  if (is_mask) s.component_alpha = coin(30);
  if (o.accessors) s.accessors = coin(6);
  return s;
}

inline Scene gen_scene(const GenOpts &o) {
  Scene sc;
  sc.op = (!o.wide_ops || coin(75)) ? (int)(coin(50) ? pick<int>({PIXMAN_OP_SRC, PIXMAN_OP_OVER, PIXMAN_OP_ADD, PIXMAN_OP_IN, PIXMAN_OP_OUT_REVERSE, PIXMAN_OP_OVER_REVERSE}) : (int)R(PIXMAN_OP_CLEAR, PIXMAN_OP_SATURATE))
                                    : (int)(coin(50) ? R(PIXMAN_OP_DISJOINT_CLEAR, PIXMAN_OP_CONJOINT_XOR) : R(PIXMAN_OP_MULTIPLY, PIXMAN_OP_HSL_LUMINOSITY));
  if (sc.op > PIXMAN_OP_SATURATE && sc.op < PIXMAN_OP_DISJOINT_CLEAR) sc.op = PIXMAN_OP_OVER;
  if (sc.op > PIXMAN_OP_DISJOINT_XOR && sc.op < PIXMAN_OP_CONJOINT_CLEAR) sc.op = PIXMAN_OP_ADD;
  if (sc.op > PIXMAN_OP_CONJOINT_XOR && sc.op < PIXMAN_OP_MULTIPLY) sc.op = PIXMAN_OP_SRC;
  sc.w = coin(40) ? WIDTHS[R(0, 14)] : (int)R(1, o.maxw);
  sc.h = (int)R(1, o.maxh);
  // destination
  SImg &d = sc.dst;
  d.kind = 0;
  d.bits = gen_bits(gen_dst_format(o.any_format), 1, 1);
  d.bits.w = std::max(1, sc.w + (int)R(-2, 6));
  d.bits.h = std::max(1, sc.h + (int)R(-1, 3));
  d.bits.fill = pickw({4, 4, 2, 3, 1, 1, 1, 1});
  sc.dx = (int)R(-2, 4);
  sc.dy = (int)R(-1, 2);
  if (o.clips && coin(20)) {
    d.has_clip = 1;
    d.clip = gen_clip(d.bits.w, d.bits.h, 4);
  }
  if (o.alpha_maps && coin(5)) {
    d.has_alpha_map = 1;
    d.amap = gen_bits(fmt_index(pick<pixman_format_code_t>({PIXMAN_a8, PIXMAN_a4, PIXMAN_a1, PIXMAN_a8r8g8b8})), 1, 1);
    d.amap.w = std::max(1, d.bits.w + (int)R(-3, 2));
    d.amap.h = std::max(1, d.bits.h + (int)R(-2, 1));
    d.ax = (int)R(-2, 3);
    d.ay = (int)R(-1, 2);
  }
  if (coin(6)) d.repeat = (int)R(1, 3);
  if (o.accessors) d.accessors = coin(5);
  if (coin(8)) {
    // dithered destinations (always composited in floating point), with offsets on either side of zero and beyond the
    // size of the dither matrices
    d.dither = (int)R(1, 5);
    d.dox = (int)R(-70, 70);
    d.doy = (int)R(-70, 70);
  }
  sc.src = gen_source(o, sc.w + 4, sc.h + 2, false);
  sc.sx = (int)R(-2, 5);
  sc.sy = (int)R(-1, 3);
  if (coin(45)) {
    sc.has_mask = 1;
    if (coin(6) && sc.src.kind == 0) sc.mask_is_src = 1;
    else sc.mask = gen_source(o, sc.w + 4, sc.h + 2, true);
    sc.mx = (int)R(-2, 5);
    sc.my = (int)R(-1, 3);
  }
  return sc;
}

// The library drops a request whose transformed extents (request rectangle grown by one pixel, corner by corner) leave the
// range it can represent, or whose homogeneous coordinate changes sign ("dropped or clamped", C04).  Harnesses that
// compare a transformed image with something that is not transformed (a solid colour, a reference model) are only
// meaningful inside that domain.  The bound used here (30000 pixels) is well inside the library's (32767).
inline bool transform_in_domain(const SImg &s, int x0, int y0, int w, int h) {
  if (!s.has_transform || s.m.size() != 9) return true;
  typedef __int128 i128;
  int sgn = 0;
  for (int cy = 0; cy <= 1; cy++)
    for (int cx = 0; cx <= 1; cx++) {
      int64_t vx = (int64_t)(x0 - 1 + cx * (w + 2)) << 16, vy = (int64_t)(y0 - 1 + cy * (h + 2)) << 16;
      i128 X = (i128)s.m[0] * vx + (i128)s.m[1] * vy + (i128)s.m[2] * 65536, Y = (i128)s.m[3] * vx + (i128)s.m[4] * vy + (i128)s.m[5] * 65536,
           W = (i128)s.m[6] * vx + (i128)s.m[7] * vy + (i128)s.m[8] * 65536;
      if (W == 0) return false;
      int sg = W > 0 ? 1 : -1;
      if (sgn && sg != sgn) return false;
      sgn = sg;
      i128 lim = (W < 0 ? -W : W) * 30000;
      if ((X < 0 ? -X : X) >= lim || (Y < 0 ? -Y : Y) >= lim) return false;
    }
  return true;
}

// For a scale a (16.16) along one axis and a request of n pixels whose source origin is `first`: the image size and the
// translation t that put every sample a*(first + k + 1/2) + t, k = 0..n-1, together with its bilinear neighbours inside the
// image ("cover")
inline void fit_cover(int64_t a, int first, int n, int &size, int64_t &t) {
  int64_t p0 = a * first + a / 2, p1 = a * (first + n - 1) + a / 2;
  int64_t lo = std::min(p0, p1), hi = std::max(p0, p1);
  int64_t margin = 65536 + R(0, 32768);
  t = margin - lo;
  size = (int)((hi - lo + 2 * margin + 65535) / 65536) + (int)R(0, 2);
}

// "plain" profile: requests shaped like the entries of the fast-path tables (common formats, few properties), so that
// the specialised C/MMX/SSE2/SSSE3 paths and iterators are what gets compared with the general path
inline Scene gen_plain_scene(int maxw, int maxh) {
  Scene sc;
  static const pixman_format_code_t SF[] = {PIXMAN_a8r8g8b8, PIXMAN_x8r8g8b8, PIXMAN_a8b8g8r8, PIXMAN_x8b8g8r8, PIXMAN_r5g6b5, PIXMAN_b5g6r5, PIXMAN_a8, PIXMAN_a1, PIXMAN_r8g8b8,
                                            PIXMAN_b8g8r8a8, PIXMAN_b8g8r8x8, PIXMAN_x2r10g10b10, PIXMAN_a2r10g10b10, PIXMAN_a1r5g5b5, PIXMAN_a4r4g4b4, PIXMAN_r3g3b2};
  static const pixman_format_code_t DF[] = {PIXMAN_a8r8g8b8, PIXMAN_x8r8g8b8, PIXMAN_a8b8g8r8, PIXMAN_x8b8g8r8, PIXMAN_r5g6b5, PIXMAN_b5g6r5, PIXMAN_a8, PIXMAN_r8g8b8, PIXMAN_b8g8r8a8,
                                            PIXMAN_b8g8r8x8, PIXMAN_a1r5g5b5, PIXMAN_a1, PIXMAN_x2r10g10b10};
  auto wpick = [&](const pixman_format_code_t *a, int n) {
    // the first four entries carry half of the mass
    return fmt_index(coin(50) ? a[R(0, 3)] : a[R(0, n - 1)]);
  };
  // one request in six is shaped like the scaled nearest/bilinear fast-path families of the C, MMX and SSE2/SSSE3
  // implementations: SRC/OVER/ADD, 8888/565 source and destination, positive scale, no mask / an untransformed a8 mask with
  // runs of 0x00 and 0xff (the vector loops skip groups of fully transparent mask pixels) / a solid mask
  // ... and one in twenty-five like the whole-image rotation routines: SRC, no mask, same 8888/565/a8 format on both sides,
  // an exact quarter-turn
  bool rot_family = coin(4);
  bool scaled_family = !rot_family && coin(17);
  sc.op = rot_family ? (coin(85) ? (int)PIXMAN_OP_SRC : (int)PIXMAN_OP_OVER) : scaled_family ? pick<int>({PIXMAN_OP_SRC, PIXMAN_OP_OVER, PIXMAN_OP_OVER, PIXMAN_OP_ADD}) : coin(60) ? pick<int>({PIXMAN_OP_SRC, PIXMAN_OP_OVER, PIXMAN_OP_OVER, PIXMAN_OP_ADD}) : pick<int>({PIXMAN_OP_IN, PIXMAN_OP_IN_REVERSE, PIXMAN_OP_OUT_REVERSE, PIXMAN_OP_OVER_REVERSE, PIXMAN_OP_OUT, PIXMAN_OP_ATOP, PIXMAN_OP_XOR, PIXMAN_OP_CLEAR, PIXMAN_OP_SATURATE, PIXMAN_OP_MULTIPLY, PIXMAN_OP_SCREEN});
  sc.w = coin(45) ? WIDTHS[R(0, 14)] : (int)R(1, maxw);
  sc.h = (int)R(1, maxh);
  SImg &d = sc.dst;
  d.bits = gen_bits(rot_family && coin(85) ? fmt_index(pick<pixman_format_code_t>({PIXMAN_a8r8g8b8, PIXMAN_x8r8g8b8, PIXMAN_r5g6b5, PIXMAN_a8}))
                    : scaled_family && coin(85) ? fmt_index(pick<pixman_format_code_t>({PIXMAN_a8r8g8b8, PIXMAN_x8r8g8b8, PIXMAN_r5g6b5, PIXMAN_a8b8g8r8}))
                                                : wpick(DF, 13),
                    1, 1);
  sc.dx = (int)R(0, 5);
  sc.dy = (int)R(0, 2);
  d.bits.w = sc.dx + sc.w + (int)R(0, 3);
  d.bits.h = sc.dy + sc.h + (int)R(0, 1);
  d.bits.fill = pickw({4, 4, 2, 3, 1, 1, 1, 1});
  if (coin(12)) {
    d.has_clip = 1;
    d.clip = gen_clip(d.bits.w, d.bits.h, 3);
  }
  bool pinned = false;
  auto gsrc = [&](SImg &s, bool is_mask) {
    pinned = false;
    if (scaled_family && is_mask && coin(60)) {
      s.kind = 0;
      s.bits = gen_bits(fmt_index(PIXMAN_a8), 1, 1);
      s.bits.fill = coin(60) ? FILL_RUNS : pickw({4, 4, 3, 3, 1, 1, 1, 6});
      s.bits.w = sc.w + 4 + (int)R(0, 8);
      s.bits.h = sc.h + 2 + (int)R(0, 3);
      return;
    }
    if (coin((scaled_family || rot_family) && !is_mask ? 0 : is_mask ? 30 : 25)) {
      s.kind = 1;
      s.color = u32();
      if (coin(35)) s.color |= 0xff000000;
      if (coin(10)) s.color &= 0x00ffffff;
      return;
    }
    s.kind = 0;
    int f = is_mask ? fmt_index(pick<pixman_format_code_t>({PIXMAN_a8, PIXMAN_a8, PIXMAN_a8r8g8b8, PIXMAN_a8b8g8r8, PIXMAN_a1, PIXMAN_a4, PIXMAN_x8r8g8b8})) : wpick(SF, 16);
    if (scaled_family && !is_mask && coin(85)) f = fmt_index(pick<pixman_format_code_t>({PIXMAN_a8r8g8b8, PIXMAN_a8r8g8b8, PIXMAN_x8r8g8b8, PIXMAN_r5g6b5, PIXMAN_a8b8g8r8}));
    s.bits = gen_bits(f, 1, 1);
    s.bits.fill = is_mask ? pickw({4, 4, 3, 3, 1, 1, 1, 6}) : pickw({4, 4, 3, 3, 1, 1, 1, 2});
    int tk = pickw({55, 22, 10, 5, 8});  // none, scale, rot90, affine, 1x1/repeat
    if (scaled_family && !is_mask) tk = 1;
    if (rot_family && !is_mask) {
      tk = 2;
      if (coin(85)) s.bits.fmt = d.bits.fmt;
    }
    s.bits.w = sc.w + (int)R(0, 8);
    s.bits.h = sc.h + (int)R(0, 3);
    if (is_mask && coin(40)) s.component_alpha = has_rgb(s.bits.code());
    if (tk == 1) {
      s.has_transform = 1;
      s.m = gen_transform(2, s.bits.w, s.bits.h);
      if (coin(70)) {  // scale only, positive, no rotation: the scaled nearest/bilinear fast paths
        s.m[0] = std::llabs(s.m[0]);
        s.m[4] = std::llabs(s.m[4]);
      }
      s.filter = pickw({5, 5, 0, 1});
      if (s.filter == 3) {
        s.kw = (int)R(1, 4);
        s.kh = (int)R(1, 4);
        s.kbx = (int)R(0, 2);
        s.kby = (int)R(0, 2);
        s.kneg = coin(50);
        s.kseed = seed64();
      }
      s.repeat = pickw({4, 3, 3, 1});
      // size the source so that the scaled request mostly stays inside
      s.bits.w = std::max<int>(1, (int)((int64_t)(sc.w + 6) * std::llabs(s.m[0]) / 65536) + (int)R(0, 4));
      s.bits.h = std::max<int>(1, (int)((int64_t)(sc.h + 3) * std::llabs(s.m[4]) / 65536) + (int)R(0, 3));
      if (s.bits.w > 700) s.bits.w = 700;
      if (s.bits.h > 40) s.bits.h = 40;
      if (coin(40)) {
        // "cover" requests: every sample (and its bilinear neighbours) inside the source, for scales of either sign and of
        // magnitude above and below one -- the domain of the COVER_CLIP fast paths and of the cover iterators, which keep
        // state from one scanline to the next (rows visited backwards and with strides > 1 when the y scale is < -1)
        if (coin(35)) s.m[4] = -std::llabs(s.m[4]);
        if (coin(15)) s.m[0] = -std::llabs(s.m[0]);
        if (coin(30)) s.m[4] = s.m[4] < 0 ? -pick<int64_t>({131072, 163840, 196608, 262144}) : pick<int64_t>({131072, 163840, 196608});
        int64_t tx, ty;
        fit_cover(s.m[0], 4, sc.w, s.bits.w, tx);
        fit_cover(s.m[4], 2, sc.h, s.bits.h, ty);
        s.m[2] = tx;
        s.m[5] = ty;
        if (s.bits.w > 900 || s.bits.h > 60) {
          s.bits.w = std::min(s.bits.w, 900);
          s.bits.h = std::min(s.bits.h, 60);
        }
        pinned = true;  // the request's source origin is pinned to (4, 2) by the caller
      } else if (coin(18)) {
        // the first sample exactly on (or one unit beside) a pixel boundary left of, at, or inside the image: the scaled
        // fast paths split each scanline into padding and image parts with integer divisions that must agree with the
        // per-pixel rule on such ties (seeded C02n)
        int64_t K = R(-6, 3);
        int64_t delta = pick<int64_t>({0, 1, -1, 2, 32768, 32769, 32767});
        s.m[2] = K * 65536 + delta - s.m[0] * 4 - s.m[0] / 2;
        if (coin(60)) s.repeat = 0;
        pinned = true;
      } else if (coin(8)) {
        // very wide sources sampled with a large step from far left of the image: the fixed-point bounds arithmetic of
        // the scaled fast paths (pad/none scanline bounds) works with sums beyond 2^31 units here, while every sample
        // position stays inside the +-32767 pixel range the library accepts
        s.bits.w = pick<int>({20000, 24000, 30000, 32000});
        s.bits.h = (int)R(1, 2);
        // the request spans 14000-30000 source pixels and starts left of the image, so that the image's left edge (and
        // for the shorter spans its right edge too) falls inside the request
        int64_t span = R(14000, 30000);
        s.m[0] = std::min<int64_t>(2000 * 65536, std::max<int64_t>(65536, span * 65536 / (sc.w + 4)));
        s.m[4] = 65536;
        int64_t start = -R(span / 4, 3 * span / 4);  // first sample, in source pixels
        s.m[2] = (start - 4 * (s.m[0] >> 16)) * 65536 + R(0, 65535);  // (the caller adds the request's source origin of up to 4)
        s.m[5] = R(0, 65535);
        s.filter = pickw({5, 5});
        s.repeat = pickw({4, 2, 4, 1});  // mostly NONE or PAD (the scanline-bounds helpers), sometimes NORMAL / REFLECT
      }
    } else if (tk == 2) {
      s.has_transform = 1;
      s.bits.w = std::max(sc.w, sc.h) + (int)R(2, 8);
      s.bits.h = s.bits.w;
      s.m = gen_transform(3, s.bits.w, s.bits.h);
      s.filter = 0;
    } else if (tk == 3) {
      s.has_transform = 1;
      s.m = gen_transform(4, s.bits.w, s.bits.h);
      s.filter = pickw({5, 5});
      s.repeat = (int)R(0, 3);
    } else if (tk == 4) {
      s.bits.w = coin(50) ? 1 : (int)R(1, 4);
      s.bits.h = coin(50) ? 1 : (int)R(1, 3);
      s.repeat = coin(85) ? 1 : (int)R(2, 3);
    } else if (coin(20))
      s.repeat = (int)R(1, 3);
  };
  gsrc(sc.src, false);
  sc.sx = pinned ? 4 : (int)R(0, 4);
  sc.sy = pinned ? 2 : (int)R(0, 2);
  if (!rot_family && !scaled_family && coin(5)) {
    // "pixbuf" requests: x888 pixels used as the source and, wrapped a second time as a8r8g8b8 / a8b8g8r8, as their own mask.
    // The implementations have whole-operation routines for the case where both are taken at the same position; at
    // different positions (in x or in y only) the general rule applies (seeded C02t)
    SImg &s = sc.src;
    s = SImg();
    s.kind = 0;
    s.bits = gen_bits(fmt_index(pick<pixman_format_code_t>({PIXMAN_x8b8g8r8, PIXMAN_x8r8g8b8, PIXMAN_x8b8g8r8, PIXMAN_a8r8g8b8})), 1, 1);
    s.bits.w = sc.w + (int)R(0, 6);
    s.bits.h = sc.h + (int)R(0, 3);
    s.bits.fill = pickw({4, 4, 3, 3, 1, 1, 1, 2});
    s.repeat = coin(70) ? 0 : (int)R(1, 3);
    sc.has_mask = 1;
    sc.mask_is_src = 0;
    sc.mask_shares_bits = 1;
    sc.mask = SImg();
    sc.mask.kind = 0;
    sc.mask.bits = s.bits;
    sc.mask.bits.fmt = fmt_index(pick<pixman_format_code_t>({PIXMAN_a8b8g8r8, PIXMAN_a8r8g8b8}));
    sc.mask.repeat = coin(90) ? s.repeat : (int)R(0, 3);
    sc.mask.component_alpha = coin(10);
    sc.op = coin(80) ? (int)PIXMAN_OP_OVER : pick<int>({PIXMAN_OP_SRC, PIXMAN_OP_ADD, PIXMAN_OP_IN});
    if (coin(80)) d.bits.fmt = fmt_index(pick<pixman_format_code_t>({PIXMAN_a8r8g8b8, PIXMAN_x8r8g8b8, PIXMAN_r5g6b5, PIXMAN_a8b8g8r8, PIXMAN_x8b8g8r8}));
    sc.sx = (int)R(0, 2);
    sc.sy = (int)R(0, 2);
    sc.mx = coin(60) ? sc.sx : (int)R(0, 2);
    sc.my = coin(60) ? sc.sy : (int)R(0, 2);
    return sc;
  }
  if (coin(rot_family ? 15 : 45)) {
    sc.has_mask = 1;
    if (coin(8) && sc.src.kind == 0 && !sc.src.has_transform) sc.mask_is_src = 1;
    else gsrc(sc.mask, true);
    sc.mx = pinned && !sc.mask_is_src ? 4 : (int)R(0, 4);
    sc.my = pinned && !sc.mask_is_src ? 2 : (int)R(0, 2);
  }
  return sc;
}

}  // namespace scene
