// Reference models of the compositing operators (DESIGN.md §2): an exact integer model for the Porter-Duff operators
// and ADD in the 8-bit pipeline, and a real-valued model (long double) of all operators written from the Render
// protocol / PDF blend-mode equations.  Nothing here calls or copies pixman's combiners.
#pragma once
#include <cstdint>
#include <cmath>
#include <algorithm>
extern "C" {
#include <pixman.h>
}

namespace rc8 {
// round-to-nearest a*b/255
inline uint32_t mul(uint32_t a, uint32_t b) {
  uint32_t t = a * b;
  return (t * 2 + 255) / 510;  // == round(t/255) for 0 <= t <= 65025 (no ties: 255 is odd)
}
inline uint32_t sat(uint32_t a) { return a > 255 ? 255 : a; }
struct P {
  uint32_t c[4];  // a r g b
};
inline P unpack(uint32_t v) { return P{{v >> 24, (v >> 16) & 0xff, (v >> 8) & 0xff, v & 0xff}}; }
inline uint32_t pack(const P &p) { return (p.c[0] << 24) | (p.c[1] << 16) | (p.c[2] << 8) | p.c[3]; }

inline bool is_exact_op(int op) { return op >= PIXMAN_OP_CLEAR && op <= PIXMAN_OP_ADD; }

// mask_kind: 0 none, 1 unified (only mask alpha used), 2 component alpha
inline uint32_t combine(int op, uint32_t s32, uint32_t m32, int mask_kind, uint32_t d32) {
  P s = unpack(s32), m = unpack(m32), d = unpack(d32), r;
  uint32_t sa = s.c[0], da = d.c[0];
  for (int i = 0; i < 4; i++) {
    uint32_t sc = s.c[i], sai = sa;  // source channel and the source alpha that applies to this channel
    if (mask_kind == 1) {
      sc = mul(sc, m.c[0]);
      sai = mul(sa, m.c[0]);
    } else if (mask_kind == 2) {
      sc = mul(sc, m.c[i]);
      sai = mul(sa, m.c[i]);
    }
    uint32_t dc = d.c[i], isa = 255 - sai, ida = 255 - da, v = 0;
    switch (op) {
    case PIXMAN_OP_CLEAR: v = 0; break;
    case PIXMAN_OP_SRC: v = sc; break;
    case PIXMAN_OP_DST: v = dc; break;
    case PIXMAN_OP_OVER: v = sat(sc + mul(dc, isa)); break;
    case PIXMAN_OP_OVER_REVERSE: v = sat(dc + mul(sc, ida)); break;
    case PIXMAN_OP_IN: v = mul(sc, da); break;
    case PIXMAN_OP_IN_REVERSE: v = mul(dc, sai); break;
    case PIXMAN_OP_OUT: v = mul(sc, ida); break;
    case PIXMAN_OP_OUT_REVERSE: v = mul(dc, isa); break;
    case PIXMAN_OP_ATOP: v = sat(mul(sc, da) + mul(dc, isa)); break;
    case PIXMAN_OP_ATOP_REVERSE: v = sat(mul(sc, ida) + mul(dc, sai)); break;
    case PIXMAN_OP_XOR: v = sat(mul(sc, ida) + mul(dc, isa)); break;
    case PIXMAN_OP_ADD: v = sat(sc + dc); break;
    }
    r.c[i] = v;
  }
  return pack(r);
}
}  // namespace rc8

namespace rcf {
typedef long double real;
struct C {
  real a, r, g, b;
};
inline real clamp01(real x) { return x < 0 ? 0 : (x > 1 ? 1 : x); }

enum Kind { K_PD, K_DISJOINT, K_CONJOINT, K_BLEND, K_HSL, K_SATURATE };
inline Kind kind_of(int op) {
  if (op == PIXMAN_OP_SATURATE) return K_SATURATE;
  if (op >= PIXMAN_OP_DISJOINT_CLEAR && op <= PIXMAN_OP_DISJOINT_XOR) return K_DISJOINT;
  if (op >= PIXMAN_OP_CONJOINT_CLEAR && op <= PIXMAN_OP_CONJOINT_XOR) return K_CONJOINT;
  if (op >= PIXMAN_OP_MULTIPLY && op <= PIXMAN_OP_EXCLUSION) return K_BLEND;
  if (op >= PIXMAN_OP_HSL_HUE && op <= PIXMAN_OP_HSL_LUMINOSITY) return K_HSL;
  return K_PD;
}
// the thirteen compositions, indexed 0..11 in the order CLEAR SRC DST OVER OVER_REVERSE IN IN_REVERSE OUT OUT_REVERSE ATOP ATOP_REVERSE XOR
inline int pd_index(int op) {
  if (op >= PIXMAN_OP_DISJOINT_CLEAR && op <= PIXMAN_OP_DISJOINT_XOR) return op - PIXMAN_OP_DISJOINT_CLEAR;
  if (op >= PIXMAN_OP_CONJOINT_CLEAR && op <= PIXMAN_OP_CONJOINT_XOR) return op - PIXMAN_OP_CONJOINT_CLEAR;
  return op;  // CLEAR..XOR are 0..11
}
// factor building blocks with the zero-denominator conventions of the Render specification
inline real one(real, real) { return 1; }
inline real zero(real, real) { return 0; }
// disjoint
inline real dj_out(real a, real b) { return b == 0 ? 1 : clamp01((1 - a) / b); }   // min(1,(1-a)/b)
inline real dj_in(real a, real b) { return b == 0 ? 0 : clamp01(1 - (1 - a) / b); }  // max(1-(1-a)/b,0)
// conjoint
inline real cj_in(real a, real b) { return b == 0 ? 1 : clamp01(a / b); }        // min(1,a/b)
inline real cj_out(real a, real b) { return b == 0 ? 0 : clamp01(1 - a / b); }   // max(1-a/b,0)

// Fa, Fb for composition index i with source alpha sa and destination alpha da
inline void factors(Kind k, int i, real sa, real da, real *Fa, real *Fb) {
  real fa = 0, fb = 0;
  if (k == K_PD) {
    static const int FA[12] = {0, 1, 0, 1, 3, 2, 0, 3, 0, 2, 3, 3};  // 0:0 1:1 2:da 3:1-da
    static const int FB[12] = {0, 0, 1, 3, 1, 0, 2, 0, 3, 3, 2, 3};  // 0:0 1:1 2:sa 3:1-sa
    auto pick = [](int c, real x) -> real { return c == 0 ? 0 : c == 1 ? 1 : c == 2 ? x : 1 - x; };
    fa = pick(FA[i], da);
    fb = pick(FB[i], sa);
  } else if (k == K_DISJOINT) {
    switch (i) {
    case 0: break;
    case 1: fa = 1; break;
    case 2: fb = 1; break;
    case 3: fa = 1; fb = dj_out(sa, da); break;
    case 4: fa = dj_out(da, sa); fb = 1; break;
    case 5: fa = dj_in(da, sa); break;
    case 6: fb = dj_in(sa, da); break;
    case 7: fa = dj_out(da, sa); break;
    case 8: fb = dj_out(sa, da); break;
    case 9: fa = dj_in(da, sa); fb = dj_out(sa, da); break;
    case 10: fa = dj_out(da, sa); fb = dj_in(sa, da); break;
    case 11: fa = dj_out(da, sa); fb = dj_out(sa, da); break;
    }
  } else {  // conjoint
    switch (i) {
    case 0: break;
    case 1: fa = 1; break;
    case 2: fb = 1; break;
    case 3: fa = 1; fb = cj_out(sa, da); break;
    case 4: fa = cj_out(da, sa); fb = 1; break;
    case 5: fa = cj_in(da, sa); break;
    case 6: fb = cj_in(sa, da); break;
    case 7: fa = cj_out(da, sa); break;
    case 8: fb = cj_out(sa, da); break;
    case 9: fa = cj_in(da, sa); fb = cj_out(sa, da); break;
    case 10: fa = cj_out(da, sa); fb = cj_in(sa, da); break;
    case 11: fa = cj_out(da, sa); fb = cj_out(sa, da); break;
    }
  }
  *Fa = fa;
  *Fb = fb;
}

// separable PDF blend modes on premultiplied values: returns sa*da*B(d/da, s/sa)
inline real blend(int op, real sa, real s, real da, real d) {
  switch (op) {
  case PIXMAN_OP_MULTIPLY: return s * d;
  case PIXMAN_OP_SCREEN: return d * sa + s * da - s * d;
  case PIXMAN_OP_OVERLAY: return (2 * d < da) ? 2 * s * d : sa * da - 2 * (da - d) * (sa - s);
  case PIXMAN_OP_DARKEN: return std::min(s * da, d * sa);
  case PIXMAN_OP_LIGHTEN: return std::max(s * da, d * sa);
  case PIXMAN_OP_COLOR_DODGE:
    if (d == 0) return 0;
    if (d * sa >= sa * da - s * da) return sa * da;
    if (sa - s == 0) return sa * da;
    return sa * sa * d / (sa - s);
  case PIXMAN_OP_COLOR_BURN:
    if (d >= da) return sa * da;
    if (sa * (da - d) >= s * da) return 0;
    if (s == 0) return 0;
    return sa * (s * da - sa * (da - d)) / s;
  case PIXMAN_OP_HARD_LIGHT: return (2 * s < sa) ? 2 * s * d : sa * da - 2 * (da - d) * (sa - s);
  case PIXMAN_OP_SOFT_LIGHT:
    if (2 * s < sa) {
      if (da == 0) return d * sa;
      return d * sa - d * (da - d) * (sa - 2 * s) / da;
    } else {
      if (da == 0) return d * sa;
      if (4 * d <= da) return d * sa + (2 * s - sa) * d * ((16 * d / da - 12) * d / da + 3);
      return d * sa + (sqrtl(d * da) - d) * (2 * s - sa);
    }
  case PIXMAN_OP_DIFFERENCE: {
    real x = s * da, y = d * sa;
    return x > y ? x - y : y - x;
  }
  case PIXMAN_OP_EXCLUSION: return s * da + d * sa - 2 * d * s;
  }
  return 0;
}

// non-separable (HSL) modes, PDF 1.7 §11.3.5.3, on premultiplied colours
struct RGB {
  real r, g, b;
};
inline real lum(const RGB &c) { return 0.3L * c.r + 0.59L * c.g + 0.11L * c.b; }
inline real chmin(const RGB &c) { return std::min(c.r, std::min(c.g, c.b)); }
inline real chmax(const RGB &c) { return std::max(c.r, std::max(c.g, c.b)); }
inline real satf(const RGB &c) { return chmax(c) - chmin(c); }
inline RGB clip_color(RGB c, real a) {
  real l = lum(c), n = chmin(c), x = chmax(c);
  if (n < 0) {
    real t = l - n;
    if (t == 0) c = RGB{0, 0, 0};
    else c = RGB{l + (c.r - l) * l / t, l + (c.g - l) * l / t, l + (c.b - l) * l / t};
  }
  if (x > a) {
    real t = x - l;
    if (t == 0) c = RGB{a, a, a};
    else c = RGB{l + (c.r - l) * (a - l) / t, l + (c.g - l) * (a - l) / t, l + (c.b - l) * (a - l) / t};
  }
  return c;
}
inline RGB set_lum(RGB c, real a, real l) {
  real dl = l - lum(c);
  return clip_color(RGB{c.r + dl, c.g + dl, c.b + dl}, a);
}
inline RGB set_sat(RGB c, real s) {
  real *ch[3] = {&c.r, &c.g, &c.b};
  std::sort(ch, ch + 3, [](real *x, real *y) { return *x < *y; });
  real mn = *ch[0], md = *ch[1], mx = *ch[2];
  if (mx > mn) {
    *ch[1] = (md - mn) * s / (mx - mn);
    *ch[2] = s;
  } else {
    *ch[1] = 0;
    *ch[2] = 0;
  }
  *ch[0] = 0;
  return c;
}
// returns the sa*da*B term for the three colour channels
inline RGB blend_hsl(int op, real sa, RGB s, real da, RGB d) {
  RGB sd{s.r * da, s.g * da, s.b * da}, ds{d.r * sa, d.g * sa, d.b * sa};
  switch (op) {
  case PIXMAN_OP_HSL_HUE: return set_lum(set_sat(sd, satf(d) * sa), sa * da, lum(d) * sa);
  case PIXMAN_OP_HSL_SATURATION: return set_lum(set_sat(ds, satf(s) * da), sa * da, lum(d) * sa);
  case PIXMAN_OP_HSL_COLOR: return set_lum(sd, sa * da, lum(d) * sa);
  default: return set_lum(ds, sa * da, lum(s) * da);  // LUMINOSITY
  }
}

// mask_kind: 0 none, 1 unified, 2 component alpha.  hsl_ca_is_dst is reported through *undefined when the
// statement gives no equation (HSL with a component-alpha mask).
// core: source channels already multiplied by the mask (sc) and the source alpha that applies to each channel (sai)
inline C combine_premasked(int op, const real sc_in[4], const real sai_in[4], int mask_kind, C d, bool *undefined) {
  *undefined = false;
  Kind k = kind_of(op);
  real sc[4], sai[4], dc[4] = {d.a, d.r, d.g, d.b}, out[4];
  for (int i = 0; i < 4; i++) {
    sc[i] = sc_in[i];
    sai[i] = sai_in[i];
  }
  real da = d.a;
  if (k == K_HSL) {
    if (mask_kind == 2) {
      *undefined = true;
      return d;
    }
    real sa = sai[0];
    RGB b = blend_hsl(op, sa, RGB{sc[1], sc[2], sc[3]}, da, RGB{dc[1], dc[2], dc[3]});
    real bb[4] = {0, b.r, b.g, b.b};
    out[0] = sa + da - sa * da;
    for (int i = 1; i < 4; i++) out[i] = (1 - sa) * dc[i] + (1 - da) * sc[i] + bb[i];
  } else if (k == K_BLEND) {
    for (int i = 0; i < 4; i++) {
      real sa = sai[i];
      if (i == 0) out[0] = sa + da - sa * da;
      else out[i] = (1 - sa) * dc[i] + (1 - da) * sc[i] + blend(op, sa, sc[i], da, dc[i]);
    }
  } else if (op == PIXMAN_OP_ADD) {
    for (int i = 0; i < 4; i++) out[i] = sc[i] + dc[i];
  } else {
    for (int i = 0; i < 4; i++) {
      real fa, fb;
      if (k == K_SATURATE) {
        fa = dj_out(da, sai[i]);
        fb = 1;
      } else
        factors(k, pd_index(op), sai[i], da, &fa, &fb);
      out[i] = sc[i] * fa + dc[i] * fb;
    }
  }
  return C{clamp01(out[0]), clamp01(out[1]), clamp01(out[2]), clamp01(out[3])};
}
// mask_kind: 0 none, 1 unified, 2 component alpha.  *undefined is set when the statement gives no equation
// (HSL with a component-alpha mask).
inline C combine(int op, C s, C m, int mask_kind, C d, bool *undefined) {
  real sc[4] = {s.a, s.r, s.g, s.b}, mc[4] = {m.a, m.r, m.g, m.b}, sai[4];
  for (int i = 0; i < 4; i++) {
    real f = mask_kind == 0 ? 1 : (mask_kind == 1 ? mc[0] : mc[i]);
    sai[i] = s.a * f;
    sc[i] = sc[i] * f;
  }
  return combine_premasked(op, sc, sai, mask_kind, d, undefined);
}
}  // namespace rcf
