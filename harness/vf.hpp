// Shared harness runtime: argument parsing, rapidcheck glue, statistics,
// current-case file (so that a sanitizer abort still leaves a replay input),
// text (de)serialisation of cases.  See DESIGN.md §1.2/§1.3.
#pragma once
#ifndef VF_FUZZ
#include <rapidcheck.h>
#else
#include <fuzzer/FuzzedDataProvider.h>
#endif
#include <cstdint>
#include <cstdio>
#include <cstdlib>
#include <cstring>
#include <cinttypes>
#include <string>
#include <vector>
#include <map>
#include <set>
#include <unordered_set>
#include <functional>
#include <sstream>
#include <fstream>
#include <iostream>
#include <algorithm>
#include <unistd.h>
#include <fcntl.h>
#include <signal.h>
#include <sys/mman.h>
#include <sys/stat.h>
#include <sys/wait.h>
#include <cstdarg>

namespace vf {

// ---------------------------------------------------------------- generators
// every random choice goes through rapidcheck so that cases shrink and replay
#ifdef VF_FUZZ
// libFuzzer build: the same generators decode the fuzzer's bytes instead of drawing from rapidcheck
inline FuzzedDataProvider *&fdp() {
  static FuzzedDataProvider *p = nullptr;
  return p;
}
inline int64_t R(int64_t lo, int64_t hi) {
  if (hi <= lo) return lo;
  return fdp()->ConsumeIntegralInRange<int64_t>(lo, hi);
}
#else
inline int64_t R(int64_t lo, int64_t hi) {  // inclusive range
  if (hi <= lo) return lo;
  return *rc::gen::resize(rc::kNominalSize, rc::gen::inRange<int64_t>(lo, hi + 1));  // inRange scales with size: pin it
}
#endif
inline bool coin(int pct) { return R(0, 99) < pct; }
template <class T> inline T pick(std::initializer_list<T> l) {
  std::vector<T> v(l);
  return v[(size_t)R(0, (int64_t)v.size() - 1)];
}
template <class T> inline const T &pickv(const std::vector<T> &v) { return v[(size_t)R(0, (int64_t)v.size() - 1)]; }
// index chosen by integer weights
inline int pickw(std::initializer_list<int> w) {
  int tot = 0;
  for (int x : w) tot += x;
  int r = (int)R(0, tot - 1), i = 0;
  for (int x : w) {
    if (r < x) return i;
    r -= x;
    i++;
  }
  return 0;
}
// vector of 0..maxn elements produced by f(); shrinks by dropping elements
template <class F> auto vec(int maxn, F f) -> std::vector<decltype(f())> {
  typedef decltype(f()) T;
#ifdef VF_FUZZ
  std::vector<T> v;
  int n = (int)R(0, maxn);
  for (int i = 0; i < n; i++) v.push_back(f());
  return v;
#else
  return *rc::gen::resize(maxn, rc::gen::container<std::vector<T>>(rc::gen::exec(f)));
#endif
}
inline uint64_t seed64() { return (uint64_t)R(0, INT64_MAX - 1); }
inline uint32_t u32() { return (uint32_t)R(0, 0xffffffffLL); }

// deterministic expansion of a rapidcheck-drawn seed into bulk data
struct Mix {
  uint64_t s;
  explicit Mix(uint64_t seed) : s(seed) {}
  uint64_t next() {
    uint64_t z = (s += 0x9E3779B97F4A7C15ULL);
    z = (z ^ (z >> 30)) * 0xBF58476D1CE4E5B9ULL;
    z = (z ^ (z >> 27)) * 0x94D049BB133111EBULL;
    return z ^ (z >> 31);
  }
  uint32_t u32() { return (uint32_t)(next() >> 32); }
  int range(int lo, int hi) { return lo + (int)(next() % (uint64_t)(hi - lo + 1)); }
};

// ---------------------------------------------------------------- archive
struct Writer {
  std::ostringstream os;
  bool first = true;
  void sep() {
    if (!first) os << ' ';
    first = false;
  }
  template <class T> typename std::enable_if<std::is_integral<T>::value || std::is_enum<T>::value>::type f(const char *n, T &v) {
    sep();
    os << n << '=' << (long long)v;
  }
  void f(const char *n, double &v) {
    sep();
    char b[64];
    snprintf(b, sizeof b, "%a", v);
    os << n << '=' << b;
  }
  void f(const char *n, std::string &v) {
    sep();
    os << n << '=' << (v.empty() ? "-" : v);
  }
  template <class T> typename std::enable_if<std::is_integral<T>::value>::type f(const char *n, std::vector<T> &v) {
    sep();
    os << n << "=[" << v.size();
    char b[32];
    for (auto &x : v) {
      if (sizeof(T) >= 4 && std::is_unsigned<T>::value) {
        snprintf(b, sizeof b, " 0x%llx", (unsigned long long)x);
        os << b;
      } else
        os << ' ' << (long long)x;
    }
    os << "]";
  }
  template <class T> typename std::enable_if<std::is_class<T>::value>::type f(const char *n, std::vector<T> &v) {
    sep();
    os << n << "={" << v.size();
    first = false;
    for (auto &x : v) {
      os << " (";
      first = true;
      x.io(*this);
      os << ")";
      first = false;
    }
    os << "}";
  }
  template <class T> typename std::enable_if<std::is_class<T>::value && !std::is_same<T, std::string>::value>::type f(const char *n, T &v) {
    sep();
    os << n << "=<";
    first = true;
    v.io(*this);
    os << ">";
    first = false;
  }
};

struct Reader {
  std::vector<std::string> tok;
  size_t p = 0;
  bool bad = false;
  explicit Reader(const std::string &s) {
    // split on whitespace, and make brackets their own separators
    std::string cur;
    auto flush = [&] {
      if (!cur.empty()) tok.push_back(cur), cur.clear();
    };
    for (char c : s) {
      if (c == ' ' || c == '\n' || c == '\t' || c == '\r')
        flush();
      else if (c == '[' || c == ']' || c == '{' || c == '}' || c == '(' || c == ')' || c == '<' || c == '>') {
        flush();
      } else
        cur.push_back(c);
    }
    flush();
  }
  std::string nextval() {
    if (p >= tok.size()) {
      bad = true;
      return "0";
    }
    std::string t = tok[p++];
    auto e = t.find('=');
    if (e != std::string::npos) t = t.substr(e + 1);
    if (t.empty()) {  // "name=" followed by bracketed content: value is next token
      if (p >= tok.size()) {
        bad = true;
        return "0";
      }
      t = tok[p++];
    }
    return t;
  }
  // a field that is not the next token keeps its default value: saved cases survive the addition of new fields
  bool have(const char *n) {
    if (p >= tok.size()) return false;
    const std::string &t = tok[p];
    size_t e = t.find('=');
    return e != std::string::npos && t.compare(0, e, n) == 0 && strlen(n) == e;
  }
  template <class T> typename std::enable_if<std::is_integral<T>::value || std::is_enum<T>::value>::type f(const char *n, T &v) {
    if (!have(n)) return;
    std::string t = nextval();
    if (t.size() > 2 && t[0] == '0' && (t[1] == 'x' || t[1] == 'X'))
      v = (T)strtoull(t.c_str(), nullptr, 16);
    else
      v = (T)strtoll(t.c_str(), nullptr, 10);
  }
  void f(const char *n, double &v) {
    if (have(n)) v = strtod(nextval().c_str(), nullptr);
  }
  void f(const char *n, std::string &v) {
    if (!have(n)) return;
    v = nextval();
    if (v == "-") v.clear();
  }
  template <class T> typename std::enable_if<std::is_integral<T>::value>::type f(const char *nm, std::vector<T> &v) {
    if (!have(nm)) return;
    size_t n = (size_t)strtoull(nextval().c_str(), nullptr, 10);
    v.resize(n);
    for (size_t i = 0; i < n; i++) {
      std::string t = nextval();
      if (t.size() > 2 && t[0] == '0' && (t[1] == 'x' || t[1] == 'X'))
        v[i] = (T)strtoull(t.c_str(), nullptr, 16);
      else
        v[i] = (T)strtoll(t.c_str(), nullptr, 10);
    }
  }
  template <class T> typename std::enable_if<std::is_class<T>::value>::type f(const char *nm, std::vector<T> &v) {
    if (!have(nm)) return;
    size_t n = (size_t)strtoull(nextval().c_str(), nullptr, 10);
    v.resize(n);
    for (size_t i = 0; i < n; i++) v[i].io(*this);
  }
  template <class T> typename std::enable_if<std::is_class<T>::value && !std::is_same<T, std::string>::value>::type f(const char *nm, T &v) {
    // "name=<" : the token "name=" has an empty value; nested fields follow
    if (!have(nm)) return;
    if (p < tok.size() && tok[p].back() == '=') p++;
    v.io(*this);
  }
};

template <class C> std::string ser(const C &c) {
  Writer w;
  const_cast<C &>(c).io(w);
  return w.os.str();
}
template <class C> bool parse(const std::string &s, C &c) {
  Reader r(s);
  c.io(r);
  return !r.bad;
}

inline uint64_t fnv(const std::string &s) {
  uint64_t h = 1469598103934665603ULL;
  for (unsigned char ch : s) h = (h ^ ch) * 1099511628211ULL;
  return h;
}

// ---------------------------------------------------------------- verdict / stats
struct Verdict {
  bool ok = true;
  bool nontrivial = false;
  std::string msg;
  const char *known = nullptr;  // id of the known finding this failure matches
  std::vector<std::string> labels;
  void fail(const std::string &m) {
    if (ok) msg = m;
    ok = false;
  }
  void label(const std::string &l) { labels.push_back(l); }
};

struct Stats {
  long evaluations = 0;
  std::unordered_set<uint64_t> nt;
  std::map<std::string, long> labels;
  std::map<std::string, long> excluded;
  std::map<std::string, double> extra;
  std::vector<std::string> samples;
  std::string failure_case, failure_msg;
  bool has_failure = false;
};

struct Ctx {
  std::string prop, out, cur, replay;
  std::set<std::string> known;
  bool check = false;
  long cases = 100;
  uint64_t seed = 1;
  std::vector<std::string> rest;
  Stats st;
  char *curmap = nullptr;
  size_t curcap = 1 << 20;
  int watchdog_s = 120;
};
inline Ctx &ctx() {
  static Ctx *c = new Ctx();
  return *c;
}
inline bool known_active(const char *id) { return id && ctx().known.count(id); }
inline void count_excluded(const char *id) { ctx().st.excluded[id]++; }

inline void set_current(const std::string &s) {
  Ctx &c = ctx();
  if (!c.curmap) return;
  size_t n = std::min(s.size(), c.curcap - 1);
  memcpy(c.curmap, s.data(), n);
  c.curmap[n] = 0;
}

inline std::string jesc(const std::string &s) {
  std::string o;
  for (char ch : s) {
    if (ch == '"' || ch == '\\') {
      o.push_back('\\');
      o.push_back(ch);
    } else if (ch == '\n')
      o += "\\n";
    else if ((unsigned char)ch < 0x20)
      o += ' ';
    else
      o.push_back(ch);
  }
  return o;
}

inline void write_stats() {
  Ctx &c = ctx();
  if (c.out.empty()) return;
  std::ofstream o(c.out);
  o << "{\"evaluations\":" << c.st.evaluations << ",\"nontrivial\":" << c.st.nt.size() << ",\"labels\":{";
  bool f = true;
  for (auto &kv : c.st.labels) {
    o << (f ? "" : ",") << "\"" << jesc(kv.first) << "\":" << kv.second;
    f = false;
  }
  o << "},\"excluded_known\":{";
  f = true;
  for (auto &kv : c.st.excluded) {
    o << (f ? "" : ",") << "\"" << jesc(kv.first) << "\":" << kv.second;
    f = false;
  }
  o << "},\"extra\":{";
  f = true;
  for (auto &kv : c.st.extra) {
    o << (f ? "" : ",") << "\"" << jesc(kv.first) << "\":" << (long long)kv.second;
    f = false;
  }
  o << "},\"samples\":[";
  f = true;
  for (auto &s : c.st.samples) {
    o << (f ? "" : ",") << "\"" << jesc(s.size() > 1500 ? s.substr(0, 1500) + "..." : s) << "\"";
    f = false;
  }
  o << "]";
  if (c.st.has_failure) o << ",\"failure\":{\"case\":\"" << jesc(c.st.failure_case) << "\",\"message\":\"" << jesc(c.st.failure_msg) << "\"}";
  o << "}\n";
  o.close();
  std::ofstream h(c.out + ".hashes", std::ios::binary);
  for (uint64_t x : c.st.nt) h.write((const char *)&x, 8);
}

inline void on_segv(int) {
  const char m[] = "\n[vf] SIGSEGV/SIGBUS: memory access outside the described storage (guard page) or wild pointer\n";
  (void)!write(2, m, sizeof m - 1);
  _exit(80);
}
inline void on_alarm(int) {
  const char m[] = "\n[vf] WATCHDOG: case did not finish in time (hang)\n";
  (void)!write(2, m, sizeof m - 1);
  _exit(79);
}

// account one evaluated case
inline void account(const std::string &s, const Verdict &v) {
  Stats &st = ctx().st;
  st.evaluations++;
  for (auto &l : v.labels) st.labels[l]++;
  if (v.nontrivial) {
    st.labels["nontrivial"]++;
    if (st.nt.size() < 3000000) st.nt.insert(fnv(s));
    if (st.samples.size() < 3) st.samples.push_back(s);
  }
}

// A property = generator + oracle over a Case type with io().
struct PropBase {
  std::string name;
  virtual ~PropBase() {}
  virtual bool run_check() = 0;                   // true = no violation
  virtual int run_fuzz_one() = 0;
  virtual int run_replay(const std::string &) = 0;  // 0 = passes
};

template <class Case> struct Prop : PropBase {
  std::function<Case()> gen;
  std::function<Verdict(const Case &)> oracle;
  // libFuzzer entry: decode one case from the fuzzer's bytes and evaluate the same oracle
  int run_fuzz_one() override {
    Ctx &c = ctx();
    Case cs = gen();
    std::string s = ser(cs);
    set_current(s);
    alarm(c.watchdog_s);
    Verdict v = oracle(cs);
    alarm(0);
    account(s, v);
    if ((c.st.evaluations & 0x3ff) == 0) write_stats();
    if (!v.ok) {
      if (known_active(v.known)) {
        count_excluded(v.known);
        return 0;
      }
      fprintf(stderr, "\n[vf] VIOLATION in fuzz case: %s\n[vf] case: %s\n", v.msg.c_str(), s.c_str());
      c.st.has_failure = true;
      c.st.failure_case = s;
      c.st.failure_msg = v.msg;
      write_stats();
      __builtin_trap();
    }
    return 0;
  }
#ifdef VF_FUZZ
  bool run_check() override { return true; }
#else
  bool run_check() override {
    Ctx &c = ctx();
    bool ok = rc::check(name, [&] {
      Case cs = gen();
      std::string s = ser(cs);
      set_current(s);
      alarm(c.watchdog_s);
      Verdict v = oracle(cs);
      alarm(0);
      account(s, v);
      if (!v.ok) {
        if (known_active(v.known)) {
          count_excluded(v.known);
          return;
        }
        c.st.has_failure = true;
        c.st.failure_case = s;
        c.st.failure_msg = v.msg;
        RC_FAIL(v.msg);
      }
    });
    return ok;
  }
#endif
  int run_replay(const std::string &text) override {
    Case cs;
    if (!parse(text, cs)) {
      fprintf(stderr, "[vf] cannot parse case\n");
      return 3;
    }
    alarm(ctx().watchdog_s);
    Verdict v = oracle(cs);
    alarm(0);
    if (!v.ok) {
      if (known_active(v.known)) {
        printf("replay: matches active known finding %s: %s\n", v.known, v.msg.c_str());
        return 0;
      }
      printf("replay: VIOLATES%s%s: %s\n", v.known ? " known=" : "", v.known ? v.known : "", v.msg.c_str());
      return 1;
    }
    printf("replay: ok (nontrivial=%d)\n", (int)v.nontrivial);
    return 0;
  }
};

inline std::vector<PropBase *> &props() {
  static std::vector<PropBase *> *p = new std::vector<PropBase *>();  // never destroyed: stays reachable for LSan
  return *p;
}
template <class Case> void add_prop(const char *name, std::function<Case()> g, std::function<Verdict(const Case &)> o) {
  auto *p = new Prop<Case>();
  p->name = name;
  p->gen = g;
  p->oracle = o;
  props().push_back(p);
}

// ---------------------------------------------------------------- worker processes (one per PIXMAN_DISABLE value)
// The implementation chain is chosen once, in the library's constructor, from the environment; the fast-path cache is
// keyed without it.  Cross-implementation comparison therefore uses one child process per configuration, started with
// the variable already set (DESIGN.md §0/§1.2).  Protocol: one serialised case per line in, one result line out.
struct Worker {
  std::string cfg;
  pid_t pid = -1;
  FILE *to = nullptr, *from = nullptr;
};
struct WorkerSet {
  std::string prop;
  std::vector<Worker> ws;
  void spawn(Worker &w) {
    int in[2], out[2];
    if (pipe(in) || pipe(out)) return;
    pid_t p = fork();
    if (p == 0) {
      dup2(in[0], 0);
      dup2(out[1], 1);
      close(in[0]);
      close(in[1]);
      close(out[0]);
      close(out[1]);
      if (!getenv("VF_WORKER_STDERR")) {
        int dn = open("/dev/null", O_WRONLY);
        if (dn >= 0) dup2(dn, 2);
      }
      setenv("PIXMAN_DISABLE", w.cfg.c_str(), 1);
      unsetenv("RC_PARAMS");
      execl("/proc/self/exe", "worker", "--worker", prop.c_str(), (char *)nullptr);
      _exit(127);
    }
    close(in[0]);
    close(out[1]);
    w.pid = p;
    w.to = fdopen(in[1], "w");
    w.from = fdopen(out[0], "r");
  }
  void start(const std::string &prop_, const std::vector<std::string> &cfgs) {
    prop = prop_;
    signal(SIGPIPE, SIG_IGN);
    for (auto &c : cfgs) {
      Worker w;
      w.cfg = c;
      spawn(w);
      ws.push_back(w);
    }
  }
  // send the case to every worker, collect one line each ("" = worker died)
  std::vector<std::string> run(const std::string &line) {
    std::vector<std::string> res;
    for (auto &w : ws) {
      if (!w.to) spawn(w);
      fputs(line.c_str(), w.to);
      fputc('\n', w.to);
      fflush(w.to);
    }
    for (auto &w : ws) {
      char *buf = nullptr;
      size_t cap = 0;
      ssize_t n;
      while ((n = getline(&buf, &cap, w.from)) > 0 && strncmp(buf, "R:", 2) != 0) {
      }
      if (n <= 0) {
        res.push_back("");
        fclose(w.to);
        fclose(w.from);
        int st;
        waitpid(w.pid, &st, 0);
        w.to = w.from = nullptr;
      } else {
        std::string r(buf + 2, (size_t)n - 2);
        while (!r.empty() && (r.back() == '\n' || r.back() == '\r')) r.pop_back();
        res.push_back(r);
      }
      free(buf);
    }
    return res;
  }
  void stop() {
    for (auto &w : ws)
      if (w.to) {
        fclose(w.to);
        fclose(w.from);
        int st;
        waitpid(w.pid, &st, 0);
      }
    ws.clear();
  }
};
inline std::vector<std::string> worker_configs() {
  // VF_CHAINS="a;b;c" overrides; default: the 8 configurations of the quick tier
  std::vector<std::string> v;
  const char *e = getenv("VF_CHAINS");
  std::string s = e ? e : ";ssse3;ssse3 sse2;ssse3 sse2 mmx;fast mmx sse2 ssse3;fast;wholeops;wholeops fast mmx sse2 ssse3";
  std::stringstream ss(s);
  std::string t;
  while (std::getline(ss, t, ';')) v.push_back(t);
  if (!s.empty() && s.back() == ';') v.push_back("");
  return v;
}

// worker-side table: prop name -> function(case text) -> result line
inline std::map<std::string, std::function<std::string(const std::string &)>> &worker_fns() {
  static auto *m = new std::map<std::string, std::function<std::string(const std::string &)>>();
  return *m;
}
// A differential property: `render` runs in every worker, `judge` sees all result lines
template <class Case>
void add_worker_prop(const char *name, std::function<Case()> g, std::function<std::string(const Case &)> render,
                     std::function<Verdict(const Case &, const std::vector<std::string> &, const std::vector<std::string> &)> judge) {
  std::string nm = name;
  worker_fns()[nm] = [render](const std::string &text) {
    Case c;
    if (!parse(text, c)) return std::string("PARSE-ERROR");
    return render(c);
  };
  static std::map<std::string, WorkerSet *> sets;
  add_prop<Case>(name, g, [nm, judge](const Case &c) {
    WorkerSet *&ws = sets[nm];
    if (!ws) {
      ws = new WorkerSet();
      ws->start(nm, worker_configs());
    }
    std::vector<std::string> cfgs;
    for (auto &w : ws->ws) cfgs.push_back(w.cfg);
    std::vector<std::string> res = ws->run(ser(c));
    Verdict v;
    for (size_t i = 0; i < res.size(); i++)
      if (res[i].empty()) {
        v.fail("worker with PIXMAN_DISABLE=\"" + cfgs[i] + "\" died on this case");
        return v;
      }
    return judge(c, res, cfgs);
  });
}

inline int main_(int argc, char **argv) {
  Ctx &c = ctx();
  for (int i = 1; i < argc; i++) {
    std::string a = argv[i];
    auto nx = [&] { return std::string(i + 1 < argc ? argv[++i] : ""); };
    if (a == "--prop") c.prop = nx();
    else if (a == "--check") c.check = true;
    else if (a == "--replay") c.replay = nx();
    else if (a == "--out") c.out = nx();
    else if (a == "--cur") c.cur = nx();
    else if (a == "--seed") c.seed = strtoull(nx().c_str(), nullptr, 10);
    else if (a == "--cases") c.cases = atol(nx().c_str());
    else if (a == "--watchdog") c.watchdog_s = atoi(nx().c_str());
    else if (a == "--known") {
      std::stringstream ss(nx());
      std::string t;
      while (std::getline(ss, t, ','))
        if (!t.empty()) c.known.insert(t);
    } else if (a == "--worker") {
      std::string nm = nx();
      auto it = worker_fns().find(nm);
      if (it == worker_fns().end()) return 3;
      char *buf = nullptr;
      size_t cap = 0;
      ssize_t n;
      while ((n = getline(&buf, &cap, stdin)) > 0) {
        std::string line(buf, (size_t)n);
        std::string r = it->second(line);
        fputs("R:", stdout);  // marker: the library itself prints to stdout ("pixman: Disabled ... implementation")
        fputs(r.c_str(), stdout);
        fputc('\n', stdout);
        fflush(stdout);
      }
      return 0;
    } else if (a == "--list") {
      for (auto *p : props()) printf("%s\n", p->name.c_str());
      return 0;
    } else
      c.rest.push_back(a);
  }
  signal(SIGALRM, on_alarm);
#if !defined(VF_VARIANT_ASAN) && !defined(VF_VARIANT_TSAN)
  signal(SIGSEGV, on_segv);
  signal(SIGBUS, on_segv);
#endif
  PropBase *P = nullptr;
  for (auto *p : props())
    if (p->name == c.prop) P = p;
  if (!P) {
    fprintf(stderr, "[vf] unknown --prop '%s'\n", c.prop.c_str());
    return 3;
  }
  if (!c.replay.empty()) {
    std::ifstream in(c.replay);
    std::stringstream ss;
    ss << in.rdbuf();
    return P->run_replay(ss.str());
  }
  if (!c.cur.empty()) {
    int fd = open(c.cur.c_str(), O_RDWR | O_CREAT | O_TRUNC, 0644);
    if (fd >= 0 && ftruncate(fd, (off_t)c.curcap) == 0) {
      void *m = mmap(nullptr, c.curcap, PROT_READ | PROT_WRITE, MAP_SHARED, fd, 0);
      if (m != MAP_FAILED) c.curmap = (char *)m;
    }
  }
  if (!getenv("RC_PARAMS")) {
    std::string p = "seed=" + std::to_string(c.seed) + " max_success=" + std::to_string(c.cases);
    setenv("RC_PARAMS", p.c_str(), 1);
  }
  bool ok = P->run_check();
  write_stats();
  return ok ? 0 : 1;
}

// small formatting helper
inline std::string fmt(const char *f, ...) {
  char b[2048];
  va_list ap;
  va_start(ap, f);
  vsnprintf(b, sizeof b, f, ap);
  va_end(ap);
  return b;
}

}  // namespace vf

#ifdef VF_FUZZ
// libFuzzer glue: property chosen by the VF_FUZZ_PROP macro; statistics go to $VF_FUZZ_STATS; active known findings
// from $VF_KNOWN (comma separated)
#define VF_MAIN()                                                                   \
  extern "C" int LLVMFuzzerInitialize(int *, char ***) {                            \
    register_props();                                                               \
    if (const char *o = getenv("VF_FUZZ_STATS")) vf::ctx().out = o;                 \
    if (const char *k = getenv("VF_KNOWN")) {                                       \
      std::stringstream ss(k);                                                      \
      std::string t;                                                                \
      while (std::getline(ss, t, ','))                                              \
        if (!t.empty()) vf::ctx().known.insert(t);                                  \
    }                                                                               \
    signal(SIGALRM, vf::on_alarm);                                                  \
    atexit(vf::write_stats);                                                        \
    return 0;                                                                       \
  }                                                                                 \
  extern "C" int LLVMFuzzerTestOneInput(const uint8_t *data, size_t size) {         \
    static vf::PropBase *P = nullptr;                                               \
    if (!P)                                                                         \
      for (auto *p : vf::props())                                                   \
        if (p->name == VF_FUZZ_PROP) P = p;                                         \
    if (!P) abort();                                                                \
    FuzzedDataProvider f(data, size);                                               \
    vf::fdp() = &f;                                                                 \
    return P->run_fuzz_one();                                                       \
  }
#else
#define VF_MAIN()                       \
  int main(int argc, char **argv) {     \
    register_props();                   \
    return vf::main_(argc, argv);       \
  }
#endif
