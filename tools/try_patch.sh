#!/bin/bash
# usage: try_patch.sh <patch.diff> <ID> [ID...]   — apply a seeded change to /repo, run the quick checks, undo it
set -u
P=$1; shift
cd /repo || exit 2
if ! git diff --quiet; then echo "repo dirty"; exit 2; fi
git apply "$P" || { echo "patch does not apply"; exit 2; }
trap 'git -C /repo checkout -- . ; (cd /verif && ./verif setup >/dev/null 2>&1)' EXIT   # undo, and rebuild so that no binary of the changed tree is left behind
for id in "$@"; do
  ( cd /verif && VERIF_SEED=${VERIF_SEED:-1} ./verif check $id --tier ${TIER:-quick} 2>&1 | grep -E "^(VIOLATION|OK|KNOWN)|BROKEN|\[driver\]|^    " | cut -c1-400 | head -8 )
done
