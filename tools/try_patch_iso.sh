#!/bin/bash
# usage: try_patch_iso.sh <patch.diff> <ID> [ID...]
# Like try_patch.sh, but never touches /repo: the change is applied to a scratch worktree of /repo's HEAD under /tmp and
# the checks run against it (VERIF_REPO) with their own build/evidence/replay directories (VERIF_OUT).  Used while other
# checks are running against /repo.  Violating cases are copied to /verif/replays/iso/.  Everything under /tmp is removed.
set -u
P=$(readlink -f "$1"); shift
N=$(echo "$P" | md5sum | cut -c1-8)
WT=/tmp/mut/wt_$N; OUT=/tmp/mut/out_$N
mkdir -p /tmp/mut
flock /tmp/gitwt.lock git -C /repo worktree remove --force $WT 2>/dev/null
flock /tmp/gitwt.lock git -C /repo worktree add -q --detach $WT HEAD || exit 2
trap 'flock /tmp/gitwt.lock git -C /repo worktree remove --force $WT; rm -rf $OUT' EXIT
git -C $WT apply "$P" || { echo "patch does not apply"; exit 2; }
mkdir -p $OUT /verif/replays/iso
for id in "$@"; do
  ( cd /verif && VERIF_REPO=$WT VERIF_OUT=$OUT VERIF_SEED=${VERIF_SEED:-1} ./verif check $id --tier ${TIER:-quick} 2>&1 | grep -E "^(VIOLATION|OK|KNOWN)|BROKEN|\[driver\]|^    " | cut -c1-400 | head -8 )
done
cp $OUT/replays/* /verif/replays/iso/ 2>/dev/null
exit 0
