#!/bin/bash
# usage: round2.sh <P> "<checks>" <x> [<x>...]  — confirm seeded change(s) from $SEED_ROOT/<P>/<x> and run the given quick checks on each (isolated)
P=$1; CHECKS=$2; shift 2
export SEED_ROOT=${SEED_ROOT:-/tmp/sb/out}
for x in "$@"; do
  /verif/tools/confirm_seeded.sh $P $x
  echo "=== $P$x: $(tail -1 /tmp/confirm_$P$x.log)"
  python3 -c "import json;print('   ',json.load(open('$SEED_ROOT/$P/$x/meta.json'))['summary'][:300])"
  /verif/tools/try_patch_iso.sh $SEED_ROOT/$P/$x/patch.diff $CHECKS 2>&1 | grep -E "^(VIOLATION|OK)|BROKEN|^    " | cut -c1-260 | awk '!seen[substr($0,1,40)]++' | head -8
done
