#!/usr/bin/env python3
"""Sensitivity sweep: for each seeded change (seeded/<name>/patch.diff) build a scratch worktree of /repo's HEAD with the
change applied, run the quick check of the property it targets (plus any --also checks) against it in isolation
(VERIF_REPO / VERIF_OUT, so /repo and /verif/build are never touched), and record the outcome in seeded/<name>/meta.json
(detected_by, detection_note).  The first violating case of the owning check is kept as regress/<ID>/...seeded_<name>.case.

usage: sweep_seeded.py [--jobs N] [--also C02,C14] [--keep-note] name [name...] | all
"""
import sys, os, json, subprocess, re, shutil, hashlib, threading, time
GIT_LOCK = threading.Lock()  # 'git worktree add/remove' are not safe to run concurrently
from concurrent.futures import ThreadPoolExecutor
HERE = os.path.dirname(os.path.dirname(os.path.abspath(__file__)))

def run(name, also):
    d = os.path.join(HERE, "seeded", name)
    meta = json.load(open(os.path.join(d, "meta.json")))
    pid = meta["property"]
    tag = hashlib.md5(name.encode()).hexdigest()[:8]
    wt, out = "/tmp/mut/wt_" + tag, "/tmp/mut/out_" + tag
    os.makedirs("/tmp/mut", exist_ok=True)
    shutil.rmtree(out, ignore_errors=True)
    with GIT_LOCK:
        subprocess.run(["flock", "/tmp/gitwt.lock", "git", "-C", "/repo", "worktree", "remove", "--force", wt], stderr=subprocess.DEVNULL)
        subprocess.run(["flock", "/tmp/gitwt.lock", "git", "-C", "/repo", "worktree", "prune"])
        subprocess.run(["flock", "/tmp/gitwt.lock", "git", "-C", "/repo", "worktree", "add", "-q", "--detach", wt, "HEAD"], check=True)
    res = {}
    try:
        r = subprocess.run(["git", "-C", wt, "apply", os.path.join(d, "patch.diff")])
        if r.returncode:
            return name, None, "patch does not apply"
        for cid in [pid] + [a for a in also if a != pid]:
            env = dict(os.environ, VERIF_REPO=wt, VERIF_OUT=out, VERIF_SEED=os.environ.get("VERIF_SEED", "1"))
            p = subprocess.run([os.path.join(HERE, "verif"), "check", cid, "--tier", "quick"], env=env, stdout=subprocess.PIPE, stderr=subprocess.STDOUT, text=True)
            lines = p.stdout.splitlines()
            viol = [l for l in lines if l.startswith("VIOLATION")]
            msg = ""
            for i, l in enumerate(lines):
                if l.startswith("VIOLATION") and i + 1 < len(lines) and lines[i + 1].startswith("    "):
                    msg = lines[i + 1].strip()
                    break
            res[cid] = dict(rc=p.returncode, violations=len(viol), message=msg, first=viol[0] if viol else "")
            if cid == pid and viol:
                # keep one generated (not replayed) counterexample as regression case
                for v in viol:
                    m = re.search(r"replay=(\S+)", v)
                    if m and m.group(1).startswith(out):
                        base = os.path.basename(m.group(1))
                        mm = re.match(r"C\d+-(\w+?)-(\w+?)-[0-9a-f]+\.case$", base)
                        if mm:
                            rd = os.path.join(HERE, "regress", pid)
                            os.makedirs(rd, exist_ok=True)
                            dst = os.path.join(rd, "%s__%s__seeded_%s.case" % (mm.group(1), mm.group(2), name))
                            if not os.path.exists(dst):
                                shutil.copyfile(m.group(1), dst)
                                envf = m.group(1)[:-5] + ".env"
                                if os.path.exists(envf):
                                    shutil.copyfile(envf, dst[:-5] + ".env")
                            break
    finally:
        with GIT_LOCK:
            subprocess.run(["flock", "/tmp/gitwt.lock", "git", "-C", "/repo", "worktree", "remove", "--force", wt])
        shutil.rmtree(out, ignore_errors=True)
    det = [c + " quick" for c, v in res.items() if v["violations"]]
    meta["detected_by"] = det
    if not keep_note or not meta.get("detection_note"):
        own = res.get(pid, {})
        meta["detection_note"] = (own.get("message") or next((v["message"] for v in res.values() if v["message"]), ""))[:400] if det else "NOT DETECTED by: " + ", ".join(res)
    json.dump(meta, open(os.path.join(d, "meta.json"), "w"), indent=1)
    return name, det, meta["detection_note"][:160]

args = sys.argv[1:]
jobs, also, keep_note, names = 3, [], False, []
while args:
    a = args.pop(0)
    if a == "--jobs": jobs = int(args.pop(0))
    elif a == "--also": also = args.pop(0).split(",")
    elif a == "--keep-note": keep_note = True
    else: names.append(a)
if names == ["all"]:
    names = sorted(os.listdir(os.path.join(HERE, "seeded")))
with ThreadPoolExecutor(jobs) as ex:
    for name, det, note in ex.map(lambda n: run(n, also), names):
        print("%-6s %-28s %s" % (name, "MISSED" if det == [] else (",".join(det) if det else "ERROR"), note), flush=True)
