#!/usr/bin/env python3
"""Regenerate MANIFEST.json from buildsys/registry.py + buildsys/manifest_meta.py."""
import json, os, sys
HERE = os.path.dirname(os.path.dirname(os.path.abspath(__file__)))
sys.path.insert(0, os.path.join(HERE, "buildsys"))
import registry, manifest_meta as mm

props = [json.loads(l) for l in open(os.path.join(HERE, "properties.jsonl"))]
checks = []
na = []
for p in props:
    pid = p["id"]
    if pid in registry.CHECKS and pid in mm.META:
        m = mm.META[pid]
        spec = registry.CHECKS[pid]
        checks.append(dict(
            property_id=pid,
            quick_cmd="./verif check %s --tier quick" % pid,
            thorough_cmd="./verif check %s --tier thorough" % pid,
            evidence_file="evidence/%s.json" % pid,
            replay_cmd_template="./verif replay %s {path}" % pid,
            engine=m.get("engine", "rapidcheck"),
            level_claimed=dict(category=spec.get("level", "exploration"), text=m["text"], design_ref=m["design_ref"]),
            level_note=m["note"],
            technique=m["technique"]))
    else:
        na.append(dict(property_id=pid, reason=mm.NOT_APPLICABLE.get(pid, "no check registered yet: harness still being built (see DESIGN.md §4 for the planned design)")))
man = dict(
    version=1,
    setup_cmd="./verif setup",
    hooks=dict(guard="PIXMAN_VERIF",
               enable="the driver compiles /repo/pixman/*.c itself with -DPIXMAN_VERIF (never through /repo/_build); see verif: build_variant()",
               baseline_off_cmd="meson compile -C /repo/_build && meson test -C /repo/_build",
               source_commits=mm.HOOK_COMMITS, add_only=True),
    engines=mm.ENGINES,
    checks=checks,
    notes=mm.NOTES,
    not_applicable=na)
json.dump(man, open(os.path.join(HERE, "MANIFEST.json"), "w"), indent=1)
print("MANIFEST.json: %d checks, %d not_applicable" % (len(checks), len(na)))
