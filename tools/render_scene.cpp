// Triage aid (not a check): renders one serialised Scene and prints the destination pixels, so that two
// PIXMAN_DISABLE settings can be diffed by hand.   usage: render_scene <case-file>
#include "scene.hpp"
using namespace vf;
using namespace img;
using namespace scene;
static void register_props() {}
int main(int argc, char **argv) {
  std::ifstream in(argv[1]);
  std::stringstream ss;
  ss << in.rdbuf();
  Scene sc;
  if (!parse(ss.str(), sc)) {
    printf("parse error\n");
    return 2;
  }
  Built b;
  build(sc, b);
  if (!b.ok) {
    printf("build failed\n");
    return 2;
  }
  draw(sc, b);
  const Image &d = *b.d.bits;
  int B = bpp(d.d.code());
  for (int y = 0; y < d.d.h; y++) {
    for (int x = 0; x < d.d.w; x++) {
      if (B <= 32) printf("%0*x ", (B + 3) / 4, raw_get(d.rowp(y), B, x));
      else {
        const uint32_t *p = (const uint32_t *)d.rowp(y) + x * (B / 32);
        for (int k = 0; k < B / 32; k++) printf("%08x%s", p[k], k + 1 < B / 32 ? ":" : " ");
      }
    }
    printf("\n");
  }
  printf("digest %s\n", digest_dest(b).c_str());
  return 0;
}
