#!/bin/bash
# usage: ingest.sh <root> <P> <x> [<x>...] — confirm seeded changes delivered under <root>/<P>/<x> (plain or TSan demo) and
# run the sensitivity sweep on the ones that were confirmed
ROOT=$1; P=$2; shift 2
export SEED_ROOT=$ROOT
names=()
for x in "$@"; do
  [ -f $ROOT/$P/$x/patch.diff ] || { echo "$P$x: not delivered"; continue; }
  if grep -qi "fsanitize=thread\|tsan" $ROOT/$P/$x/demo.c 2>/dev/null; then /verif/tools/confirm_seeded_tsan.sh $P $x; else /verif/tools/confirm_seeded.sh $P $x; fi
  tail -1 /tmp/confirm_$P$x.log
  [ -d /verif/seeded/$P$x ] && names+=($P$x)
done
[ ${#names[@]} -gt 0 ] && python3 /verif/tools/sweep_seeded.py --jobs 2 "${names[@]}" 2>&1 | cut -c1-300
