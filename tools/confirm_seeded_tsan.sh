#!/bin/bash
# usage: confirm_seeded_tsan.sh <prop> <variant>  — like confirm_seeded.sh for demonstrations that need ThreadSanitizer:
# the library is built twice in the scratch worktree (normal build for the suite, -Db_sanitize=thread for the demo).
set -u
P=$1; X=$2
SRC=${SEED_ROOT:-/tmp/sa/out}/$P/$X
WT=/tmp/confirm_$P$X
OUT=/verif/seeded/$P$X
exec >/tmp/confirm_$P$X.log 2>&1
flock /tmp/gitwt.lock git -C /repo worktree remove --force $WT 2>/dev/null
flock /tmp/gitwt.lock git -C /repo worktree add -q --detach $WT HEAD || exit 2
cd $WT
trap 'cd /; flock /tmp/gitwt.lock git -C /repo worktree remove --force $WT' EXIT
meson setup _build >/dev/null 2>&1 && ninja -C _build >/dev/null 2>&1 || { echo "RESULT $P$X: baseline build failed"; exit 1; }
meson setup _build_tsan -Db_sanitize=thread -Db_lundef=false -Dtests=disabled -Dgtk=disabled -Dopenmp=disabled >/dev/null 2>&1 && ninja -C _build_tsan >/dev/null 2>&1 || { echo "RESULT $P$X: tsan build failed"; exit 1; }
bd() { gcc -fsanitize=thread -O1 -g -pthread $SRC/demo.c -I$WT/pixman -I$WT/_build_tsan/pixman -L$WT/_build_tsan/pixman -lpixman-1 -lm -o demo_bin; }
bd; LD_LIBRARY_PATH=$WT/_build_tsan/pixman timeout 600 ./demo_bin >/tmp/confirm_$P$X.clean.out 2>&1; RC_CLEAN=$?
git apply $SRC/patch.diff || { echo "RESULT $P$X: patch does not apply"; exit 1; }
ninja -C _build_tsan >/dev/null 2>&1; ninja -C _build >/dev/null 2>&1; bd
LD_LIBRARY_PATH=$WT/_build_tsan/pixman timeout 600 ./demo_bin >/tmp/confirm_$P$X.patched.out 2>&1; RC_PATCHED=$?
meson test -C _build >/tmp/confirm_$P$X.suite.out 2>&1; RC_SUITE=$?
OKN=$(grep -E "^Ok:" /tmp/confirm_$P$X.suite.out | awk '{print $2}')
echo "RESULT $P$X: demo_clean_rc=$RC_CLEAN demo_patched_rc=$RC_PATCHED suite_rc=$RC_SUITE ok=$OKN"
if [ "$RC_CLEAN" = 0 ] && [ "$RC_PATCHED" != 0 ] && [ "$RC_SUITE" = 0 ] && [ "$OKN" = 33 ]; then
  mkdir -p $OUT; cp $SRC/patch.diff $SRC/demo.c $OUT/
  python3 - "$SRC/meta.json" "$OUT/meta.json" "$P" "$(git -C /repo rev-parse --short HEAD)" <<'PY'
import json,sys
src,dst,p,head=sys.argv[1:5]
try: m=json.load(open(src))
except Exception: m={}
out=dict(property=p, summary=m.get("summary",""), needs=m.get("needs",""), files=m.get("files",[]),
         origin="independent sub-agent given only the property text and a scratch worktree",
         confirmed=dict(on_commit=head, patch_applies=True, compiles=True, existing_suite="33/33 pass with the change",
                        demo_with_change="fails (exit != 0; ThreadSanitizer report)", demo_without_change="passes (exit 0)",
                        how="tools/confirm_seeded_tsan.sh in a scratch worktree under /tmp (removed afterwards): -Db_sanitize=thread build of the library, demo built with gcc -fsanitize=thread"),
         detected_by=[])
json.dump(out,open(dst,"w"),indent=1)
PY
  echo "RESULT $P$X: CONFIRMED and stored in $OUT"
else
  echo "RESULT $P$X: NOT confirmed"
fi
