#!/bin/bash
# usage: confirm_seeded.sh <prop> <variant>   e.g. C05 a
# Independently confirm a seeded change produced by a sub-agent: applies on a scratch worktree of /repo HEAD,
# compiles, existing suite passes, demo FAILs with the change and PASSes without.  On success stores it in /verif/seeded/.
set -u
P=$1; X=$2
SRC=${SEED_ROOT:-/tmp/sa/out}/$P/$X
WT=/tmp/confirm_$P$X
OUT=/verif/seeded/$P$X
LOG=/tmp/confirm_$P$X.log
exec >"$LOG" 2>&1
flock /tmp/gitwt.lock git -C /repo worktree remove --force $WT 2>/dev/null
flock /tmp/gitwt.lock git -C /repo worktree add -q --detach $WT HEAD || exit 2
cd $WT
res() { echo "RESULT $P$X: $*"; }
cleanup() { cd /; flock /tmp/gitwt.lock git -C /repo worktree remove --force $WT; }
trap cleanup EXIT
meson setup _build >/dev/null 2>&1 && ninja -C _build >/dev/null 2>&1 || { res "baseline build failed"; exit 1; }
build_demo() { gcc -O1 -g $SRC/demo.c -I$WT/pixman -I$WT/_build/pixman -L$WT/_build/pixman -lpixman-1 -lm -lpthread -ldl -o $WT/demo_bin 2>&1; }
build_demo || { res "demo does not build"; exit 1; }
LD_LIBRARY_PATH=$WT/_build/pixman timeout 300 ./demo_bin >/tmp/confirm_$P$X.clean.out 2>&1; RC_CLEAN=$?
git apply $SRC/patch.diff || { res "patch does not apply to HEAD"; exit 1; }
ninja -C _build >/tmp/confirm_$P$X.build.out 2>&1 || { res "patched build failed"; exit 1; }
build_demo
LD_LIBRARY_PATH=$WT/_build/pixman timeout 300 ./demo_bin >/tmp/confirm_$P$X.patched.out 2>&1; RC_PATCHED=$?
meson test -C _build >/tmp/confirm_$P$X.suite.out 2>&1; RC_SUITE=$?
OKN=$(grep -E "^Ok:" /tmp/confirm_$P$X.suite.out | awk '{print $2}')
res "demo_clean_rc=$RC_CLEAN demo_patched_rc=$RC_PATCHED suite_rc=$RC_SUITE ok=$OKN"
if [ "$RC_CLEAN" = 0 ] && [ "$RC_PATCHED" != 0 ] && [ "$RC_SUITE" = 0 ] && [ "$OKN" = 33 ]; then
  mkdir -p $OUT
  cp $SRC/patch.diff $SRC/demo.c $OUT/
  python3 - "$SRC/meta.json" "$OUT/meta.json" "$P" "$(git -C /repo rev-parse --short HEAD)" <<'PY'
import json,sys
src,dst,p,head=sys.argv[1:5]
try: m=json.load(open(src))
except Exception: m={}
out=dict(property=p, summary=m.get("summary",""), needs=m.get("needs",""), files=m.get("files",[]),
         origin="independent sub-agent given only the property text and a scratch worktree",
         confirmed=dict(on_commit=head, patch_applies=True, compiles=True, existing_suite="33/33 pass with the change",
                        demo_with_change="fails (exit != 0)", demo_without_change="passes (exit 0)",
                        how="tools/confirm_seeded.sh in a scratch worktree under /tmp (removed afterwards)"),
         detected_by=[])
json.dump(out,open(dst,"w"),indent=1)
PY
  res "CONFIRMED and stored in $OUT"
else
  res "NOT confirmed"
fi
